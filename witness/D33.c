/* D33 (C12/C07, known): when syntax errors recur closer together than recovery_match tokens,
   no recovery alternative ever matches enough tokens before the end of input and the search
   over (skip / secondary state) combinations grows exponentially with the number of errors:
   S : S T | T ; T : 'x' ';' | error ';' on ("xx;")^k takes 0.1 s / 50 MB for k = 10 and more
   than 8 GB for k = 15.  Measured machine-independently with the YAEP_VERIF allocation
   counter: going from k = 8 to k = 10 must not multiply the number of allocation requests. */
#include "wcommon.h"
extern long yaep_verif_alloc_count;
static long requests (int k)
{
  int in[64], i, amb; struct yaep_tree_node *root; long c0;
  struct grammar *g = yaep_create_grammar ();
  yaep_parse_grammar (g, 0, "S : S T # l (0 1) | T # 0 ; T : 'x' ';' # st (0) | error ';' # er () ;");
  for (i = 0; i < k; i++) { in[3 * i] = 'x'; in[3 * i + 1] = 'x'; in[3 * i + 2] = ';'; }
  c0 = yaep_verif_alloc_count;
  w_parse (g, in, 3 * k, &root, &amb);
  c0 = yaep_verif_alloc_count - c0;
  yaep_free_grammar (g);
  return c0;
}
int main (void)
{
  long a = requests (8), b = requests (10);
  printf ("allocation requests: k=8 %ld, k=10 %ld\n", a, b);
  CHECK (b < 3 * a, "work of error recovery grows exponentially with the number of densely recurring errors");
  printf ("WITNESS-OK\n");
  return 0;
}
