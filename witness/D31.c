/* D31 (C12): terminal sets are arrays of (signed) long; setting / testing the terminal with
   number 63 shifts 1L by 63 places - undefined behaviour (UBSan: shift).  A grammar with 70
   terminals is enough. */
#include "wcommon.h"
int main (void)
{
  char text[4000]; int i, n = 0, in[1];
  struct yaep_tree_node *root; int amb;
  struct grammar *g = yaep_create_grammar ();
  n += sprintf (text + n, "TERM");
  for (i = 0; i < 70; i++) n += sprintf (text + n, " t%d = %d", i, 1000 + i);
  n += sprintf (text + n, ";\nS :");
  for (i = 0; i < 70; i++) n += sprintf (text + n, " %s t%d # 0", i ? "|" : "", i);
  n += sprintf (text + n, ";\n");
  CHECK (yaep_parse_grammar (g, 1, text) == 0, "define");
  for (i = 60; i < 70; i++)
    {
      in[0] = 1000 + i;
      CHECK (w_parse (g, in, 1, &root, &amb) == 0 && root != NULL && w_nerr == 0, "parse");
      yaep_free_tree (root, NULL, NULL);
    }
  yaep_free_grammar (g);
  printf ("WITNESS-OK\n");
  return 0;
}
