/* D8 (C13/C12): minimal-cost pruning collected a node once per visit and released it once
   per occurrence: a TERM node shared by several pruned alternatives, or the name block
   shared by two pruned abstract nodes of one rule, went to parse_free twice.
   S : A | B | C | D ; A : 'a' # x 5 (0) ; B : 'a' # x2 5 (0) ... on `a', cost flag on. */
#include "wcommon.h"
#define MAXB 256
static void *blk[MAXB]; static int freed[MAXB], nblk, bad;
static void *my_alloc (int n) { void *p = malloc (n); if (nblk < MAXB) { blk[nblk] = p; freed[nblk++] = 0; } return p; }
static void my_free (void *p)
{
  int i;
  if (p == NULL) return;
  for (i = 0; i < nblk; i++) if (blk[i] == p) { if (freed[i]) bad = 1; freed[i] = 1; return; }
  bad = 2;
}
int main (void)
{
  static const int in[] = { 'a' };
  struct yaep_tree_node *root; int amb, i;
  struct grammar *g = yaep_create_grammar ();
  CHECK (yaep_parse_grammar (g, 0, "S : A # 0 | B # 0 | C # 0 ; A : 'a' # x 5 (0) | 'a' 'a' # x 5 (0) ; B : 'a' # y 5 (0) ; C : 'a' # z 1 () ;") == 0, "define");
  yaep_set_one_parse_flag (g, 0);
  yaep_set_cost_flag (g, 1);
  w_toks = in; w_ntoks = 1; w_pos = 0;
  CHECK (yaep_parse (g, w_read_token, w_syntax_error, my_alloc, my_free, &root, &amb) == 0 && root != NULL, "parse");
  CHECK (bad == 0, bad == 1 ? "a block was passed to parse_free twice" : "parse_free got a pointer that parse_alloc never returned");
  yaep_free_grammar (g);
  yaep_free_tree (root, my_free, NULL);
  CHECK (bad == 0, "yaep_free_tree: double / foreign free");
  for (i = 0; i < nblk; i++) CHECK (freed[i], "a parse_alloc block was never released");
  for (i = 0; i < nblk; i++) free (blk[i]);
  printf ("WITNESS-OK\n");
  return 0;
}
