/* D4 (C14/C15): yaep_parse_grammar reported description syntax errors through the file-scope
   current grammar, which is still the object used by the previous call: the code and the
   message landed in another object (or in freed / NULL memory after yaep_free_grammar). */
#include "wcommon.h"
int main (void)
{
  struct grammar *g1 = yaep_create_grammar (), *g2 = yaep_create_grammar (), *g3;
  CHECK (yaep_parse_grammar (g1, 0, "S : 'a' # 0 ;") == 0, "define g1");
  CHECK (yaep_parse_grammar (g2, 0, "S : 'a' # ;;; (") == YAEP_DESCRIPTION_SYNTAX_ERROR_CODE, "syntax error expected");
  CHECK (yaep_error_code (g2) == YAEP_DESCRIPTION_SYNTAX_ERROR_CODE, "error code must be recorded in the object that was being defined");
  CHECK (yaep_error_message (g2)[0] != 0, "message must be recorded in the object that was being defined");
  CHECK (yaep_error_code (g1) == 0, "another object's error code must stay untouched");
  g3 = yaep_create_grammar ();
  yaep_free_grammar (g3);
  CHECK (yaep_parse_grammar (g2, 0, "S : 'a' # ;;; (") == YAEP_DESCRIPTION_SYNTAX_ERROR_CODE, "syntax error after another object was freed");
  yaep_free_grammar (g1); yaep_free_grammar (g2);
  printf ("WITNESS-OK\n");
  return 0;
}
