/* D16 (C19/C16): hash_table::find_entry (C++ implementation) re-used a deleted slot for a
   reserving search but left the DELETED marker ((void *) 1) in it; the C implementation
   clears the slot.  A caller that tests `*entry == NULL' to tell "new" from "found" (as all
   callers in yaep.c do) takes the marker for an element.  insert 0; remove 0; reserve 0.  */
#include <cstdio>
#include "allocate.h"
#include "hashtab.h"
static int keys[2] = { 0, 1 };
static unsigned h (hash_table_entry_t e) { return *(const int *) e; }
static int eq (hash_table_entry_t a, hash_table_entry_t b) { return *(const int *) a == *(const int *) b; }
int main ()
{
  YaepAllocator *a = yaep_alloc_new (NULL, NULL, NULL, NULL);
  hash_table *t = new hash_table (a, 1, h, eq);
  hash_table_entry_t *e = t->find_entry (&keys[0], 1);
  *e = &keys[0];
  t->remove_element_from_entry (&keys[0]);
  e = t->find_entry (&keys[0], 1);
  if (*e != NULL) { printf ("WITNESS-FAIL: reserved entry for an absent key is not empty (%p)\n", *e); return 1; }
  *e = &keys[0];
  delete t;
  yaep_alloc_del (a);
  printf ("WITNESS-OK\n");
  return 0;
}
