#!/bin/bash
# usage: run.sh <witness.c> [srcdir]   builds the witness against the C library sources under ASan+UBSan and runs it
W=$1; SRC=${2:-/repo/src}
D=$(mktemp -d /var/tmp/yaep-wit.XXXXXX); trap 'rm -rf "$D"' EXIT
bison -o $D/sgramm.c $SRC/sgramm.y 2>/dev/null || exit 2
gcc -g -O1 -DYAEP_VERIF -w -fsanitize=address,undefined -fno-sanitize-recover=undefined -I$SRC -I$D -I$(dirname $W) $W $SRC/yaep.c $SRC/allocate.c $SRC/hashtab.c $SRC/objstack.c $SRC/vlobject.c -o $D/w || exit 2
ASAN_OPTIONS=detect_leaks=${LEAKS:-0} MALLOC_PERTURB_=165 timeout 60 $D/w 2>&1 | grep -v "^conda\|^$" | head -${LINES_MAX:-12}
exit ${PIPESTATUS[0]}
