/* D28 (C14): yaep_parse keeps "what has been initialised" in two automatic variables that are
   modified between setjmp and longjmp without being volatile; in an optimised build their
   values are lost when an error (e.g. YAEP_INVALID_TOKEN_CODE) longjmps back, the cleanup
   is skipped and the token array leaks: after freeing every object the library still holds
   memory.  (Needs the library compiled with optimisation; uses the YAEP_VERIF block counter.) */
#include "wcommon.h"
extern long yaep_verif_live_blocks;
int main (void)
{
  static const int in[] = { 'a', 'z' };
  struct yaep_tree_node *root; int amb, i;
  struct grammar *g = yaep_create_grammar ();
  CHECK (yaep_parse_grammar (g, 0, "S : 'a' 'a' # 0 ;") == 0, "define");
  for (i = 0; i < 3; i++)
    CHECK (w_parse (g, in, 2, &root, &amb) == YAEP_INVALID_TOKEN_CODE, "invalid token expected");
  yaep_free_grammar (g);
  CHECK (yaep_verif_live_blocks == 0, "library holds memory after all objects were freed");
  printf ("WITNESS-OK\n");
  return 0;
}
