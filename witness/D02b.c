/* D2b (C14): yaep_free_grammar (g) released the symbol/rule/terminal-set storage of the
   *current* grammar (file-scope pointers) instead of g's: create g1; create g2; free g1
   destroys g2's tables (and leaks g1's). */
#include "wcommon.h"
int main (void)
{
  static const int in[] = { 'a' };
  struct yaep_tree_node *root; int amb;
  struct grammar *g1 = yaep_create_grammar (), *g2 = yaep_create_grammar ();
  yaep_free_grammar (g1);
  CHECK (yaep_parse_grammar (g2, 0, "S : 'a' # 0 ;") == 0, "define g2");
  CHECK (w_parse (g2, in, 1, &root, &amb) == 0 && root != NULL, "parse g2");
  yaep_free_tree (root, NULL, NULL);
  yaep_free_grammar (g2);
  printf ("WITNESS-OK\n");
  return 0;
}
