/* D24 (C03, known): S : S S # r (0 -) | 'a' # x (0) on aaa: two derivations, translations
   r(r(x(a0),-),-) and r(x(a0),-); the DAG denotes only one of them. */
#include "wcommon.h"
int main (void)
{
  static const int in[] = { 'a', 'a', 'a' };
  struct yaep_tree_node *root; int amb;
  struct grammar *g = yaep_create_grammar ();
  CHECK (yaep_parse_grammar (g, 0, "S : S S # r (0 -) | 'a' # x (0) ;") == 0, "define");
  yaep_set_one_parse_flag (g, 0);
  CHECK (w_parse (g, in, 3, &root, &amb) == 0 && root != NULL, "parse");
  CHECK (root->type == YAEP_ALT || (root->type == YAEP_ANODE && root->val.anode.children[0]->type == YAEP_ALT), "only one of the two translations is denoted");
  printf ("WITNESS-OK\n");
  return 0;
}
