/* D5 (C15/C12): an undeclared token code lying between the smallest and the largest
   declared code must give YAEP_INVALID_TOKEN_CODE; the dense code table was malloc'ed and
   only the declared slots written, so the lookup returned garbage. */
#include "wcommon.h"
int main (void)
{
  struct yaep_tree_node *root; int amb, c, rc;
  struct grammar *g;
  /* fill the heap with non-zero garbage so that a recycled block shows up */
  { void *p[64]; int i; for (i = 0; i < 64; i++) { p[i] = malloc (8 * (i + 1)); memset (p[i], 0x5a, 8 * (i + 1)); } for (i = 0; i < 64; i++) free (p[i]); }
  g = yaep_create_grammar ();
  CHECK (yaep_parse_grammar (g, 0, "TERM A = 10 B = 20; S : A B # s (0 1) ;") == 0, "define");
  for (c = 11; c < 20; c++)
    {
      int in[2]; in[0] = 10; in[1] = c;
      rc = w_parse (g, in, 2, &root, &amb);
      CHECK (rc == YAEP_INVALID_TOKEN_CODE, "undeclared code inside the declared range accepted");
      CHECK (yaep_error_code (g) == YAEP_INVALID_TOKEN_CODE, "error code");
    }
  yaep_free_grammar (g);
  printf ("WITNESS-OK\n");
  return 0;
}
