/* D15 (C17, known): allocation failure inside yaep_create_grammar / yaep_parse_grammar is not
   reported as NULL / YAEP_NO_MEMORY: (1) the second allocation of yaep_create_grammar still has
   the default error handler installed, which prints "*** out of memory ***" and exits;
   (2) a failure while set_sgrammar creates its five containers makes free_sgrammar delete
   containers that do not exist yet.  Uses the YAEP_VERIF single-fault hook. */
#include "wcommon.h"
extern long yaep_verif_alloc_count, yaep_verif_fail_at;
int main (void)
{
  struct grammar *g;
  yaep_verif_fail_at = yaep_verif_alloc_count + 2;
  g = yaep_create_grammar ();		/* exits here on the unfixed tree */
  yaep_verif_fail_at = 0;
  CHECK (g == NULL, "yaep_create_grammar must return NULL when an allocation fails");
  g = yaep_create_grammar ();
  yaep_verif_fail_at = yaep_verif_alloc_count + 2;
  CHECK (yaep_parse_grammar (g, 0, "S : 'a' # 0 ;") == YAEP_NO_MEMORY, "YAEP_NO_MEMORY expected");
  yaep_verif_fail_at = 0;
  yaep_free_grammar (g);
  printf ("WITNESS-OK\n");
  return 0;
}
