/* D30 (C12/C15): symb_finish_adding_terms computed max_code - min_code in int; the internal
   terminals have the codes -1 and -2, so a declared code near INT_MAX overflows (undefined
   behaviour, caught by UBSan).  TERM t = 2147483647.  */
#include "wcommon.h"
int main (void)
{
  static const int in[] = { 2147483647 };
  struct yaep_tree_node *root; int amb;
  struct grammar *g = yaep_create_grammar ();
  CHECK (yaep_parse_grammar (g, 0, "TERM t = 2147483647; S : t # 0 ;") == 0, "define");
  CHECK (w_parse (g, in, 1, &root, &amb) == 0 && root != NULL && w_nerr == 0, "parse");
  yaep_free_tree (root, NULL, NULL);
  yaep_free_grammar (g);
  printf ("WITNESS-OK\n");
  return 0;
}
