/* D19 (C07/C12): the implicit rule `$S : error $eof' was left out as soon as the start
   symbol had any rule beginning with `error'.  With S : error 'a' | 'a' 'c' and the input
   `c' no recovery candidate reaches a match, the "best" recovery state is never assigned
   and its uninitialised contents are installed (heap-buffer-overflow / SEGV). */
#include "wcommon.h"
int main (void)
{
  static const int in1[] = { 'c' }, in2[] = { 'c', 'c' };
  struct yaep_tree_node *root; int amb;
  struct grammar *g = yaep_create_grammar ();
  CHECK (yaep_parse_grammar (g, 0, "S : error 'a' # e (1) | 'a' 'c' # s (0 1) ;") == 0, "define");
  CHECK (w_parse (g, in1, 1, &root, &amb) == 0 && root != NULL && w_nerr >= 1, "parse c");
  yaep_free_tree (root, NULL, NULL);
  CHECK (w_parse (g, in2, 2, &root, &amb) == 0 && root != NULL && w_nerr >= 1, "parse cc");
  yaep_free_tree (root, NULL, NULL);
  yaep_free_grammar (g);
  printf ("WITNESS-OK\n");
  return 0;
}
