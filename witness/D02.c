/* D2 (C14): the parser list `pl' survives a successful yaep_parse: it is leaked by the
   next parse and released (a second time) by whatever yaep_free_grammar comes later:
   parse on g1; free g1; create g2; free g2 => double free. */
#include "wcommon.h"
int main (void)
{
  static const int in[] = { 'a' };
  struct yaep_tree_node *root; int amb;
  struct grammar *g1 = yaep_create_grammar (), *g2;
  CHECK (yaep_parse_grammar (g1, 0, "S : 'a' # 0 ;") == 0, "define g1");
  CHECK (w_parse (g1, in, 1, &root, &amb) == 0 && root != NULL, "parse g1");
  yaep_free_tree (root, NULL, NULL);
  CHECK (w_parse (g1, in, 1, &root, &amb) == 0 && root != NULL, "parse g1 again");
  yaep_free_tree (root, NULL, NULL);
  yaep_free_grammar (g1);
  g2 = yaep_create_grammar ();
  yaep_free_grammar (g2);
  printf ("WITNESS-OK\n");
  return 0;
}
