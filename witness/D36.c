/* D36 (C12/C19): the hash table statistics (searches, collisions; per table and global) were
   signed ints incremented on every probe: after 2^31 collisions in one process the increment
   overflows (undefined behaviour; UBSan: signed-integer-overflow in find_hash_table_entry).
   A table with a constant hash function and 200 keys collides ~199 times per search. */
#include <stdio.h>
#include "allocate.h"
#include "hashtab.h"
static int keys[200];
static unsigned h (hash_table_entry_t e) { (void) e; return 7; }
static int eq (hash_table_entry_t a, hash_table_entry_t b) { return *(const int *) a == *(const int *) b; }
int main (void)
{
  YaepAllocator *a = yaep_alloc_new (NULL, NULL, NULL, NULL);
  hash_table_t t = create_hash_table (a, 1000, h, eq);
  long i;
  for (i = 0; i < 200; i++) { keys[i] = (int) i; *find_hash_table_entry (t, &keys[i], 1) = &keys[i]; }
  for (i = 0; i < 11500000; i++)	/* > 2^31 probes in total */
    if (*find_hash_table_entry (t, &keys[199], 0) != &keys[199]) { printf ("WITNESS-FAIL: element lost\n"); return 1; }
  delete_hash_table (t);
  yaep_alloc_del (a);
  printf ("WITNESS-OK\n");
  return 0;
}
