/* D37 (C04): S : A B C # s 1 (0 1 2) ; A : 'a' # 0 | ; B : A # 0 | 'b' # 0 ; C : B A # c 1 (0 1)
   on aa with the cost flag and all parses: every one of the six translations costs 2.  The
   alternatives for C over a1 are one ALT list shared by two abstract nodes s; pruning it through
   the first parent reverses the list in place, so the second parent, still pointing at the old
   head, kept a single alternative.  Counts the translations denoted by the returned DAG. */
#include "wcommon.h"
static long count (struct yaep_tree_node *n)
{
  long c, s; int i; struct yaep_tree_node *a;
  switch (n->type)
    {
    case YAEP_ANODE:
      for (c = 1, i = 0; n->val.anode.children[i] != NULL; i++) c *= count (n->val.anode.children[i]);
      return c;
    case YAEP_ALT:
      /* distinct alternatives only: the list may hold the same node twice */
      for (s = 0, a = n; a != NULL; a = a->val.alt.next)
	{
	  struct yaep_tree_node *b; int dup = 0;
	  for (b = n; b != a; b = b->val.alt.next) if (b->val.alt.node == a->val.alt.node) dup = 1;
	  if (!dup) s += count (a->val.alt.node);
	}
      return s;
    default:
      return 1;
    }
}
int main (void)
{
  static const int in[] = { 'a', 'a' };
  struct yaep_tree_node *root; int amb; long n0, n1;
  struct grammar *g = yaep_create_grammar ();
  CHECK (yaep_parse_grammar (g, 0, "S : A B C # s 1 (0 1 2) ; A : 'a' # 0 | ; B : A # 0 | 'b' # 0 ; C : B A # c 1 (0 1) ;") == 0, "define");
  yaep_set_one_parse_flag (g, 0);
  yaep_set_cost_flag (g, 0);
  CHECK (w_parse (g, in, 2, &root, &amb) == 0 && root != NULL, "parse without cost flag");
  n0 = count (root);
  yaep_set_cost_flag (g, 1);
  CHECK (w_parse (g, in, 2, &root, &amb) == 0 && root != NULL, "parse with cost flag");
  n1 = count (root);
  CHECK (n0 == 6, "all parses: six translations expected");
  CHECK (n1 == 6, "cost flag: all six translations cost 2, fewer are denoted");
  printf ("WITNESS-OK\n");
  return 0;
}
