/* D3 (C14/C09): second parse of one object at lookahead level 2: the empty context is
   already in the object's terminal-set table, term_set_insert returns -1 and
   sit_table[-1] is read. */
#include "wcommon.h"
int main (void)
{
  static const int in[] = { 'a', 'a' };
  struct yaep_tree_node *root; int amb, i;
  struct grammar *g = yaep_create_grammar ();
  CHECK (yaep_parse_grammar (g, 0, "S : 'a' S # s (0 1) | 'a' # 0 ;") == 0, "define");
  yaep_set_lookahead_level (g, 2);
  for (i = 0; i < 3; i++)
    {
      CHECK (w_parse (g, in, 2, &root, &amb) == 0 && root != NULL && w_nerr == 0, "parse");
      yaep_free_tree (root, NULL, NULL);
    }
  yaep_free_grammar (g);
  printf ("WITNESS-OK\n");
  return 0;
}
