/* D29 (C14/C10): a description with a syntax error given to an already defined object left
   the old grammar in force: the failed definition returned an error but yaep_parse went on
   parsing with the previous grammar instead of returning YAEP_UNDEFINED_OR_BAD_GRAMMAR. */
#include "wcommon.h"
int main (void)
{
  static const int in[] = { 'a' };
  struct yaep_tree_node *root; int amb;
  struct grammar *g = yaep_create_grammar ();
  CHECK (yaep_parse_grammar (g, 0, "S : 'a' # 0 ;") == 0, "define");
  CHECK (yaep_parse_grammar (g, 0, "S : 'a' # ;;; (") == YAEP_DESCRIPTION_SYNTAX_ERROR_CODE, "syntax error expected");
  CHECK (w_parse (g, in, 1, &root, &amb) == YAEP_UNDEFINED_OR_BAD_GRAMMAR, "parse after a failed definition must return YAEP_UNDEFINED_OR_BAD_GRAMMAR");
  CHECK (yaep_parse_grammar (g, 0, "S : 'a' # 0 ;") == 0, "define again");
  CHECK (w_parse (g, in, 1, &root, &amb) == 0 && root != NULL, "parse");
  yaep_free_tree (root, NULL, NULL);
  yaep_free_grammar (g);
  printf ("WITNESS-OK\n");
  return 0;
}
