/* D1 / D14 (C11): TERM identifiers without explicit code must get distinct free codes from
   256 upwards in order of appearance; `code = setjmp (...)' overwrote the initial 256 with 0,
   and explicitly used codes were not skipped. */
#include "wcommon.h"
int main (void)
{
  static const int in1[] = { 256, 257 }, in0[] = { 0, 1 }, in2[] = { 256, 257 };
  struct yaep_tree_node *root; int amb;
  struct grammar *g = yaep_create_grammar ();
  CHECK (yaep_parse_grammar (g, 0, "TERM A B; S : A B # s (0 1) ;") == 0, "define");
  CHECK (w_parse (g, in1, 2, &root, &amb) == 0 && root != NULL && w_nerr == 0, "tokens 256 257 must be A B");
  yaep_free_tree (root, NULL, NULL);
  CHECK (w_parse (g, in0, 2, &root, &amb) == YAEP_INVALID_TOKEN_CODE, "codes 0 1 are not declared");
  CHECK (yaep_parse_grammar (g, 0, "TERM A = 256 B; S : A B # s (0 1) ;") == 0, "an explicit 256 must not collide with the implicit numbering");
  CHECK (w_parse (g, in2, 2, &root, &amb) == 0 && root != NULL && w_nerr == 0, "A = 256, B = next free code 257");
  yaep_free_tree (root, NULL, NULL);
  yaep_free_grammar (g);
  printf ("WITNESS-OK\n");
  return 0;
}
