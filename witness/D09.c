/* D9 (C04): with the cost flag set the cost fields were summed only when the input was
   ambiguous; for an unambiguous sentence they stayed the rules' own costs.
   S : 'a' B # s 1 (1) ; B : 'b' # b 3 (0) on `ab': root cost must be 1 + 3. */
#include "wcommon.h"
int main (void)
{
  static const int in[] = { 'a', 'b' };
  struct yaep_tree_node *root; int amb;
  struct grammar *g = yaep_create_grammar ();
  CHECK (yaep_parse_grammar (g, 0, "S : 'a' B # s 1 (1) ; B : 'b' # b 3 (0) ;") == 0, "define");
  yaep_set_cost_flag (g, 1);
  CHECK (w_parse (g, in, 2, &root, &amb) == 0 && root != NULL && !amb, "parse");
  CHECK (root->type == YAEP_ANODE && root->val.anode.cost == 4, "root cost must be own cost 1 + child cost 3");
  yaep_free_tree (root, NULL, NULL);
  yaep_set_cost_flag (g, 0);
  CHECK (w_parse (g, in, 2, &root, &amb) == 0 && root != NULL, "parse");
  CHECK (root->val.anode.cost == 1, "without the cost flag the field is the rule's own cost");
  yaep_free_tree (root, NULL, NULL);
  yaep_free_grammar (g);
  printf ("WITNESS-OK\n");
  return 0;
}
