/* D22 (C02/C03): an initial (zero-distance) situation was not added to a set when the same
   situation was already present as a derived non-start situation carrying its parent's
   (non-zero) distance.  The empty derivation starting at the current position was then
   unknown to the tree builder, which silently produced NIL for a nullable nonterminal:
   S : A A # r0 (0 1) ; A : # r1 () | 'a' S # r2 (0 1) on `a' gave r0(r1(), r2(a, NIL))
   although S never translates to NIL (it is always an r0 node). */
#include "wcommon.h"
static int bad;
static void walk (struct yaep_tree_node *n, int depth)
{
  int i;
  if (n->type == YAEP_ALT) { for (; n != NULL; n = n->val.alt.next) walk (n->val.alt.node, depth); return; }
  if (n->type != YAEP_ANODE) return;
  if (strcmp (n->val.anode.name, "r2") == 0 && n->val.anode.children[1]->type == YAEP_NIL) bad = 1;
  if (depth < 50) for (i = 0; n->val.anode.children[i] != NULL; i++) walk (n->val.anode.children[i], depth + 1);
}
int main (void)
{
  static const int in[] = { 'a' };
  struct yaep_tree_node *root; int amb, one;
  struct grammar *g = yaep_create_grammar ();
  CHECK (yaep_parse_grammar (g, 0, "S : A A # r0 (0 1) ; A : # r1 () | 'a' S # r2 (0 1) ;") == 0, "define");
  for (one = 0; one < 2; one++)
    {
      yaep_set_one_parse_flag (g, one);
      CHECK (w_parse (g, in, 1, &root, &amb) == 0 && root != NULL && w_nerr == 0, "parse");
      bad = 0; walk (root, 0);
      CHECK (!bad, "translation of S inside r2 is NIL, but S only ever translates to an r0 node");
      yaep_free_tree (root, NULL, NULL);
    }
  yaep_free_grammar (g);
  printf ("WITNESS-OK\n");
  return 0;
}
