/* D35 (C12, known): the tree walks of the library are recursive with a depth proportional to
   the depth of the tree: prune_to_minimal / traverse_pruned_translation (cost flag),
   free_tree_reduce / free_tree_sweep (yaep_free_tree), print_parse (debug level 2).  A
   left-recursive list of 600 000 elements gives a tree about 300 000 deep and overflows the
   default 8 MB stack (SIGSEGV) - here in yaep_free_tree, with the cost flag already in yaep_parse. */
#include "wcommon.h"
#define N 600001
static int big[N];
int main (void)
{
  struct yaep_tree_node *root; int amb, i;
  struct grammar *g = yaep_create_grammar ();
  CHECK (yaep_parse_grammar (g, 0, "L : L ',' 'x' # c (0 2) | 'x' # 0 ;") == 0, "define");
  for (i = 0; i < N; i++) big[i] = i % 2 ? ',' : 'x';
  CHECK (w_parse (g, big, N, &root, &amb) == 0 && root != NULL && w_nerr == 0, "parse");
  yaep_free_tree (root, NULL, NULL);	/* stack overflow on the unfixed tree */
  yaep_free_grammar (g);
  printf ("WITNESS-OK\n");
  return 0;
}
