/* D25 (C12/C07): in all-parses mode make_parse indexed the terminal-node reuse array
   (sized by the token count) with parser-list indexes; after error recoveries that insert
   `error' sets without skipping tokens the list is longer than the input:
   S : S T | T ; T : 'x' ';' | error ';' on `;;;x;' => heap-buffer-overflow. */
#include "wcommon.h"
int main (void)
{
  static const int in[] = { ';', ';', ';', 'x', ';' };
  struct yaep_tree_node *root; int amb;
  struct grammar *g = yaep_create_grammar ();
  CHECK (yaep_parse_grammar (g, 0, "S : S T # l (0 1) | T # 0 ; T : 'x' ';' # st (0) | error ';' # er () ;") == 0, "define");
  yaep_set_one_parse_flag (g, 0);
  CHECK (w_parse (g, in, 5, &root, &amb) == 0 && root != NULL && w_nerr >= 1, "parse");
  yaep_free_tree (root, NULL, NULL);
  yaep_free_grammar (g);
  printf ("WITNESS-OK\n");
  return 0;
}
