#!/bin/bash
# usage: runxx.sh <witness.cpp> [srcdir]  container-level C++ witness
W=$1; SRC=${2:-/repo/src}
D=$(mktemp -d /var/tmp/yaep-wit.XXXXXX); trap 'rm -rf "$D"' EXIT
gcc -g -c -w -I$SRC $SRC/allocate.c -o $D/allocate.o || exit 2
g++ -g -O0 -w -fsanitize=address,undefined -I$SRC $W $SRC/hashtab.cpp $SRC/objstack.cpp $SRC/vlobject.cpp $D/allocate.o -o $D/w || exit 2
ASAN_OPTIONS=detect_leaks=0:alloc_dealloc_mismatch=0 timeout 60 $D/w 2>&1 | head -12
exit ${PIPESTATUS[0]}
