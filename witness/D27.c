/* D27 (C10): without strict checking the start symbol must still derive a terminal string
   (YAEP_NONTERM_DERIVATION); the test looked at the internal axiom $S, which always derives
   `error $eof' through the implicit rule, so it never fired. */
#include "wcommon.h"
int main (void)
{
  struct grammar *g = yaep_create_grammar ();
  CHECK (yaep_parse_grammar (g, 0, "TERM a; S : a B ;") == YAEP_NONTERM_DERIVATION, "start symbol deriving no terminal string accepted (non-strict)");
  CHECK (yaep_parse_grammar (g, 1, "TERM a; S : a B ;") == YAEP_NONTERM_DERIVATION, "strict");
  CHECK (yaep_parse_grammar (g, 0, "TERM a; S : a | a B ;") == 0, "non-strict: only the start symbol is checked");
  yaep_free_grammar (g);
  printf ("WITNESS-OK\n");
  return 0;
}
