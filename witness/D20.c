/* D20 (C07/C09/C12, known): after an error recovery make_parse takes the attribute of a TERM
   node from toks[parser list index]; the parser list index differs from the token index by
   (inserted error sets - ignored tokens), so the node carries the attribute of another token,
   and for indexes beyond the token count an uninitialised array element is read.
   S : S T | T ; T : 'x' ';' # st (0) | error ';' # er (); input `; x ;': the TERM node of x
   (token 1) must carry the attribute of token 1. */
#include "wcommon.h"
static long attrs[8];
static int rt (void **attr) { *attr = w_pos < w_ntoks ? (void *) &attrs[w_pos] : NULL; return w_pos < w_ntoks ? w_toks[w_pos++] : -1; }
static struct yaep_tree_node *find_term (struct yaep_tree_node *n)
{
  int i; struct yaep_tree_node *r;
  if (n->type == YAEP_TERM) return n;
  if (n->type == YAEP_ANODE) for (i = 0; n->val.anode.children[i] != NULL; i++) if ((r = find_term (n->val.anode.children[i])) != NULL) return r;
  return NULL;
}
int main (void)
{
  static const int in[] = { ';', 'x', ';' };
  struct yaep_tree_node *root, *t; int amb;
  struct grammar *g = yaep_create_grammar ();
  CHECK (yaep_parse_grammar (g, 0, "S : S T # l (0 1) | T # 0 ; T : 'x' ';' # st (0) | error ';' # er () ;") == 0, "define");
  w_toks = in; w_ntoks = 3; w_pos = 0;
  CHECK (yaep_parse (g, rt, w_syntax_error, NULL, NULL, &root, &amb) == 0 && root != NULL, "parse");
  t = find_term (root);
  CHECK (t != NULL && t->val.term.code == 'x', "tree must contain the TERM node of x");
  CHECK (t->val.term.attr == (void *) &attrs[1], "TERM node of token 1 carries the attribute of another token");
  yaep_free_tree (root, NULL, NULL);
  /* several `error' insertions inside one recovery (secondary recovery states) */
  {
    static const int in2[] = { 'a', 'a', 'a' };
    struct yaep_tree_node *n; int k;
    CHECK (yaep_parse_grammar (g, 0, "S : 'a' error # r (0) | S S # s (0 1) ;") == 0, "define 2");
    w_toks = in2; w_ntoks = 3; w_pos = 0;
    CHECK (yaep_parse (g, rt, w_syntax_error, NULL, NULL, &root, &amb) == 0 && root != NULL, "parse 2");
    /* the rightmost leaf chain: s(s(r(a0),r(a1)),r(a2)) */
    for (n = root, k = 2; n->type == YAEP_ANODE && strcmp (n->val.anode.name, "s") == 0; n = n->val.anode.children[0], k--)
      {
        struct yaep_tree_node *r = n->val.anode.children[1];
        CHECK (r->type == YAEP_ANODE && r->val.anode.children[0]->type == YAEP_TERM, "shape");
        CHECK (r->val.anode.children[0]->val.term.attr == (void *) &attrs[k], "TERM node carries the attribute of another (or of no) token after a recovery with several error insertions");
      }
  }
  printf ("WITNESS-OK\n");
  return 0;
}
