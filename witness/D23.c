/* D23 (C03, fixed): S : S S # s (0 1) | 'a' # 0 on aaaaa has 14 derivations with 14 different
   translations; the returned DAG denotes fewer. Counts the denoted trees. */
#include "wcommon.h"
static long count (struct yaep_tree_node *n)
{
  long c = 0, k; int i;
  if (n->type == YAEP_ALT) { for (; n != NULL; n = n->val.alt.next) c += count (n->val.alt.node); return c; }
  if (n->type != YAEP_ANODE) return 1;
  for (k = 1, i = 0; n->val.anode.children[i] != NULL; i++) k *= count (n->val.anode.children[i]);
  return k;
}
int main (void)
{
  static const int in[] = { 'a', 'a', 'a', 'a', 'a' };
  struct yaep_tree_node *root; int amb; long c;
  struct grammar *g = yaep_create_grammar ();
  CHECK (yaep_parse_grammar (g, 0, "S : S S # s (0 1) | 'a' # 0 ;") == 0, "define");
  yaep_set_one_parse_flag (g, 0);
  CHECK (w_parse (g, in, 5, &root, &amb) == 0 && root != NULL, "parse");
  c = count (root);
  printf ("denoted trees: %ld (14 derivations)\n", c);
  CHECK (c >= 14, "fewer trees denoted than there are distinct translations");
  printf ("WITNESS-OK\n");
  return 0;
}
