/* D32 (C12/C13): with the cost flag, pruning released the shared NIL (or ERROR) node when it
   only occurred in discarded alternatives; make_parse then read its `used' member (use after
   free) and, if the flag said unused, freed it again.
   S : | 'a' 'a' # r1 (0 1) | S 'a' # r2 2 (0 1) on `aa' with the cost flag: the alternative
   r2(r2(NIL,a),a) is discarded together with the NIL node. */
#include "wcommon.h"
int main (void)
{
  static const int in[] = { 'a', 'a' };
  struct yaep_tree_node *root; int amb, one;
  struct grammar *g = yaep_create_grammar ();
  CHECK (yaep_parse_grammar (g, 0, "S : # - | 'a' 'a' # r1 1 (0 1) | S 'a' # r2 2 (0 1) ;") == 0, "define");
  yaep_set_cost_flag (g, 1);
  for (one = 0; one < 2; one++)
    {
      yaep_set_one_parse_flag (g, one);
      CHECK (w_parse (g, in, 2, &root, &amb) == 0 && root != NULL && w_nerr == 0, "parse");
      CHECK (root->type == YAEP_ANODE && strcmp (root->val.anode.name, "r1") == 0, "minimal translation is r1");
      yaep_free_tree (root, NULL, NULL);
    }
  yaep_free_grammar (g);
  printf ("WITNESS-OK\n");
  return 0;
}
