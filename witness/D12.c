/* D12 (C12): the description lexer read past the terminating NUL when the text ends inside a
   character constant ("S : '" or "S : 'a"), and accumulated decimal numbers with signed
   overflow.  Texts live in exactly sized heap blocks so that ASan sees the over-read. */
#include "wcommon.h"
static int try (const char *t)
{
  struct grammar *g = yaep_create_grammar ();
  char *p = malloc (strlen (t) + 1); int rc;
  strcpy (p, t);
  rc = yaep_parse_grammar (g, 0, p);
  free (p);
  yaep_free_grammar (g);
  return rc;
}
int main (void)
{
  CHECK (try ("S : '") != 0, "unfinished character constant must be rejected");
  CHECK (try ("S : 'a") != 0, "unfinished character constant must be rejected");
  CHECK (try ("TERM a = 99999999999999999999; S : a ;") != 0, "number that does not fit must be rejected");
  printf ("WITNESS-OK\n");
  return 0;
}
