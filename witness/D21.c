/* D21 (C02/C03/C01): `# -' on a rule without abstract node was counted as one translated
   element with no symbol attached, so neither "produce NIL" nor any child placement fired:
   `S : 'a' # -' on `a' returned 0 with no syntax error and *root == NULL. */
#include "wcommon.h"
int main (void)
{
  static const int in[] = { 'a' };
  struct yaep_tree_node *root; int amb;
  struct grammar *g = yaep_create_grammar ();
  CHECK (yaep_parse_grammar (g, 0, "S : 'a' # - ;") == 0, "define");
  CHECK (w_parse (g, in, 1, &root, &amb) == 0, "parse");
  CHECK (w_nerr == 0, "no syntax error on a sentence");
  CHECK (root != NULL, "root is NULL for a sentence");
  CHECK (root->type == YAEP_NIL, "translation `# -' must be the NIL node");
  yaep_free_tree (root, NULL, NULL);
  yaep_set_one_parse_flag (g, 0);
  CHECK (yaep_parse_grammar (g, 0, "S : A # s (0) ; A : 'a' # - | 'a' # x (0) ;") == 0, "define 2");
  CHECK (w_parse (g, in, 1, &root, &amb) == 0 && root != NULL, "parse 2");
  CHECK (root->type == YAEP_ANODE && root->val.anode.children[0]->type == YAEP_ALT, "both translations of A must be present");
  yaep_free_tree (root, NULL, NULL);
  yaep_free_grammar (g);
  printf ("WITNESS-OK\n");
  return 0;
}
