/* D11 (C15): yaep_parse with a NULL parse_alloc and a non-NULL parse_free returns
   YAEP_NO_MEMORY but left yaep_error_code at 0 and the message empty. */
#include "wcommon.h"
static void my_free (void *p) { free (p); }
int main (void)
{
  static const int in[] = { 'a' };
  struct yaep_tree_node *root; int amb;
  struct grammar *g = yaep_create_grammar ();
  CHECK (yaep_parse_grammar (g, 0, "S : 'a' # 0 ;") == 0, "define");
  w_toks = in; w_ntoks = 1; w_pos = 0;
  CHECK (yaep_parse (g, w_read_token, w_syntax_error, NULL, my_free, &root, &amb) == YAEP_NO_MEMORY, "YAEP_NO_MEMORY expected");
  CHECK (yaep_error_code (g) == YAEP_NO_MEMORY, "yaep_error_code must equal the code of the failing call");
  CHECK (yaep_error_message (g)[0] != 0, "message must not be empty");
  yaep_free_grammar (g);
  printf ("WITNESS-OK\n");
  return 0;
}
