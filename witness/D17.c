/* D17 (C07/C08): each time error recovery moved its back frontier further back it forgot the
   token that had led into the old frontier set, so deep recoveries looked cheaper than they
   are and the callback under-reported the ignored tokens.
   S : 'a' L 'e' # s (1) ; L : 'x' 'x' # l (0 1) | error 'y' # r (1) | 'y' # y (0), match 1,
   input `axe': the whole input is replaced by `error' (tree NIL, 3 tokens lost) but only 2
   were reported.  Whatever recovery is chosen, reported and lost tokens must agree. */
#include "wcommon.h"
static int ign, rec, ncb;
static void se (int e, void *ea, int i, void *ia, int r, void *ra) { (void) e; (void) ea; (void) ia; (void) ra; ign = i; rec = r; ncb++; }
int main (void)
{
  static const int in[] = { 'a', 'x', 'e' };
  struct yaep_tree_node *root; int amb;
  struct grammar *g = yaep_create_grammar ();
  CHECK (yaep_parse_grammar (g, 0, "S : 'a' L 'e' # s (1) ; L : 'x' 'x' # l (0 1) | error 'y' # r (1) | 'y' # y (0) ;") == 0, "define");
  yaep_set_recovery_match (g, 1);
  w_toks = in; w_ntoks = 3; w_pos = 0;
  CHECK (yaep_parse (g, w_read_token, se, NULL, NULL, &root, &amb) == 0 && root != NULL && ncb == 1, "parse");
  if (root->type == YAEP_NIL)
    CHECK (rec - ign == 3, "the tree is NIL (whole input replaced by error: 3 tokens) but fewer tokens were reported ignored");
  yaep_free_tree (root, NULL, NULL);
  yaep_free_grammar (g);
  printf ("WITNESS-OK\n");
  return 0;
}
