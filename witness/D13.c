/* D13 (C10): the reserved names $S and $eof were only looked for while the first rule was
   read; used in a later rule they silently aliased the internal axiom / end marker. */
#include "wcommon.h"
static const char *rt (int *code) { (void) code; return NULL; }
static int nr;
static const char *rr (const char ***rhs, const char **an, int *cost, int **tr)
{
  static const char *r1[] = { "A", NULL }, *r2[] = { "$eof", NULL }, *r3[] = { NULL };
  *an = NULL; *cost = 0; *tr = NULL;
  switch (nr++) { case 0: *rhs = r1; return "S"; case 1: *rhs = r2; return "A"; case 2: *rhs = r3; return "$S"; default: return NULL; }
}
int main (void)
{
  struct grammar *g = yaep_create_grammar ();
  nr = 0;
  CHECK (yaep_read_grammar (g, 0, rt, rr) == YAEP_FIXED_NAME_USAGE, "$eof / $S used in a later rule must give YAEP_FIXED_NAME_USAGE");
  yaep_free_grammar (g);
  printf ("WITNESS-OK\n");
  return 0;
}
