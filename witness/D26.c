/* D26 (C14/C10): a failed yaep_read_grammar left its symbols behind (and, on an object that
   was defined before, left it marked as defined): (1) undefined object, failed definition,
   then a well-formed grammar is rejected ("do not use fixed name `error'");
   (2) defined object, failed redefinition, then yaep_parse must return
   YAEP_UNDEFINED_OR_BAD_GRAMMAR instead of parsing with half of a grammar. */
#include "wcommon.h"
int main (void)
{
  static const int in[] = { 'a' };
  struct yaep_tree_node *root; int amb, rc;
  struct grammar *g = yaep_create_grammar ();
  CHECK (yaep_parse_grammar (g, 0, "S : S # 0 | 'b' # 0 ;") == YAEP_LOOP_NONTERM, "loop grammar must be rejected");
  rc = yaep_parse_grammar (g, 0, "S : 'a' # 0 ;");
  CHECK (rc == 0, "well-formed grammar rejected after a failed definition");
  CHECK (w_parse (g, in, 1, &root, &amb) == 0 && root != NULL && w_nerr == 0, "parse");
  yaep_free_tree (root, NULL, NULL);
  CHECK (yaep_parse_grammar (g, 0, "S : S # 0 | 'b' # 0 ;") == YAEP_LOOP_NONTERM, "loop grammar must be rejected (redefinition)");
  rc = w_parse (g, in, 1, &root, &amb);
  CHECK (rc == YAEP_UNDEFINED_OR_BAD_GRAMMAR, "parse after a failed redefinition must return YAEP_UNDEFINED_OR_BAD_GRAMMAR");
  yaep_free_grammar (g);
  printf ("WITNESS-OK\n");
  return 0;
}
