/* D34 (C17, known): an allocation failure in the middle of yaep_parse longjmps to the cleanup,
   which finalises data structures that are only half built (e.g. an element of the array of
   vlos that was added but not yet created): invalid free / SEGV instead of YAEP_NO_MEMORY.
   Uses the YAEP_VERIF single-fault hook: request 32 of parsing a+a*(a). */
#include "wcommon.h"
extern long yaep_verif_alloc_count, yaep_verif_fail_at;
int main (void)
{
  static const int in[] = { 'a', '+', 'a', '*', '(', 'a', ')' };
  struct yaep_tree_node *root; int amb, k, rc;
  for (k = 1; k <= 60; k++)
    {
      struct grammar *g = yaep_create_grammar ();
      CHECK (yaep_parse_grammar (g, 0, "TERM; E : T # 0 | E '+' T # plus (0 2) ; T : F # 0 | T '*' F # mult (0 2) ; F : 'a' # 0 | '(' E ')' # 1 ;") == 0, "define");
      yaep_verif_fail_at = yaep_verif_alloc_count + k;
      rc = w_parse (g, in, 7, &root, &amb);
      CHECK (yaep_verif_fail_at > yaep_verif_alloc_count || rc == YAEP_NO_MEMORY, "YAEP_NO_MEMORY expected when an allocation fails");
      yaep_verif_fail_at = 0;
      yaep_free_grammar (g);
    }
  printf ("WITNESS-OK\n");
  return 0;
}
