/* Shared helpers for the stand-alone witness programs (plain C, libyaep only).
   Each witness exits 0 when the property holds on its one history and non-zero
   (or dies under ASan) when it does not. */
#include <stdio.h>
#include <stdlib.h>
#include <string.h>
#include "yaep.h"
static const int *w_toks; static int w_ntoks, w_pos, w_nerr;
static int w_read_token (void **attr) { *attr = NULL; return w_pos < w_ntoks ? w_toks[w_pos++] : -1; }
static void w_syntax_error (int e, void *ea, int i, void *ia, int r, void *ra)
{ (void) e; (void) ea; (void) i; (void) ia; (void) r; (void) ra; w_nerr++; }
static int w_parse (struct grammar *g, const int *toks, int n, struct yaep_tree_node **root, int *amb)
{ w_toks = toks; w_ntoks = n; w_pos = 0; w_nerr = 0; return yaep_parse (g, w_read_token, w_syntax_error, NULL, NULL, root, amb); }
#define CHECK(c, msg) do { if (!(c)) { printf ("WITNESS-FAIL: %s\n", msg); return 1; } } while (0)
