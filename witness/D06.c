/* D6 (C12): yaep_error formatted the message with vsprintf into a 201 byte buffer: a long
   symbol name overflowed it (inside struct grammar for ~170 characters, beyond the heap
   block for 300).  The message must be a NUL-terminated string of at most 200 characters. */
#include "wcommon.h"
int main (void)
{
  char text[2000]; char name[400]; int L[] = { 170, 300 }, i;
  for (i = 0; i < 2; i++)
    {
      struct grammar *g = yaep_create_grammar ();
      memset (name, 'n', L[i]); name[L[i]] = 0;
      sprintf (text, "%s : %s | 'a' ;", name, name);
      CHECK (yaep_parse_grammar (g, 0, text) == YAEP_LOOP_NONTERM, "loop expected");
      CHECK (strlen (yaep_error_message (g)) <= 200, "error message longer than its buffer");
      yaep_free_grammar (g);
    }
  printf ("WITNESS-OK\n");
  return 0;
}
