/* D7 (C04): minimal-cost pruning mishandled an abstract node reached through a second
   parent: prune_to_minimal returned without setting *cost (the parent added a stale value)
   and traverse_pruned_translation flipped the visit flag in the cost field twice.
   S : X | Y ; X : A 'b' # x 0 (0) ; Y : A 'b' # y 0 (0) ; A : 'a' # a 3 (0) on `ab':
   both translations cost 3, both must be kept, and A's cost field must be 3. */
#include "wcommon.h"
int main (void)
{
  static const int in[] = { 'a', 'b' };
  struct yaep_tree_node *root, *n; int amb, k = 0;
  struct grammar *g = yaep_create_grammar ();
  CHECK (yaep_parse_grammar (g, 0, "S : X # 0 | Y # 0 ; X : A 'b' # x 0 (0) ; Y : A 'b' # y 0 (0) ; A : 'a' # a 3 (0) ;") == 0, "define");
  yaep_set_one_parse_flag (g, 0);
  yaep_set_cost_flag (g, 1);
  CHECK (w_parse (g, in, 2, &root, &amb) == 0 && root != NULL, "parse");
  CHECK (root->type == YAEP_ALT, "both minimal translations (x and y, cost 3 each) must be kept");
  for (n = root; n != NULL; n = n->val.alt.next, k++)
    {
      struct yaep_tree_node *x = n->val.alt.node;
      CHECK (x->type == YAEP_ANODE && x->val.anode.cost == 3, "cost of x / y must be 3");
      CHECK (x->val.anode.children[0]->type == YAEP_ANODE && x->val.anode.children[0]->val.anode.cost == 3, "cost field of the shared node a must be 3");
    }
  CHECK (k == 2, "two alternatives");
  yaep_free_tree (root, NULL, NULL);
  yaep_free_grammar (g);
  printf ("WITNESS-OK\n");
  return 0;
}
