/* D17b (C06/C12): the start of the ignored range was computed as error position minus the
   total cost of the recovery state, but for states reached by advancing the head frontier
   that cost contains tokens skipped *forward*: the reported first ignored token lay before
   the real range, down to -1 (and toks[-1].attr was read).
   S : | error | error 'a', input `aa', match 2. */
#include "wcommon.h"
static int bad;
static void se (int e, void *ea, int i, void *ia, int r, void *ra)
{ (void) ea; (void) ia; (void) ra; if (!(0 <= i && i <= r && r <= 2 && 0 <= e && e <= 2)) bad = 1; }
int main (void)
{
  static const int in[] = { 'a', 'a' };
  struct yaep_tree_node *root; int amb;
  struct grammar *g = yaep_create_grammar ();
  CHECK (yaep_parse_grammar (g, 0, "S : # - | error # 0 | error 'a' # r (0 1) ;") == 0, "define");
  yaep_set_recovery_match (g, 2);
  w_toks = in; w_ntoks = 2; w_pos = 0;
  CHECK (yaep_parse (g, w_read_token, se, NULL, NULL, &root, &amb) == 0 && root != NULL, "parse");
  CHECK (!bad, "syntax_error arguments violate 0 <= first ignored <= first recovered <= token count");
  yaep_free_tree (root, NULL, NULL);
  yaep_free_grammar (g);
  printf ("WITNESS-OK\n");
  return 0;
}
