#!/usr/bin/env python3
"""Regenerates MANIFEST.json from the table below (kept next to the plans)."""
import json, os, subprocess
VERIF = os.path.dirname(os.path.dirname(os.path.abspath(__file__)))
props = [json.loads(l) for l in open(os.path.join(VERIF, "properties.jsonl"))]

TECH = "bounded exhaustive enumeration of inputs on the real code, judged by a reference model"
CLAIMS = {
 "C01": ("model_checking", "5 C01", "gram",
         "Every grammar of the bounded families x every token string up to length n x all 24 flag vectors is executed on the real library; the verdict is compared with an independent span-fixpoint recogniser. Complete within the stated bounds, nothing beyond them.",
         TECH + " (engine gram)"),
 "C02": ("model_checking", "5 C02", "gram",
         "All sentences of all grammars of the families, under a per-rule translation menu, parsed with one_parse=1; the returned node graph is checked structurally and its single tree must be a member of the reference set T(w) of translations of all derivations.",
         TECH + " (engine gram, translation menus)"),
 "C05": ("model_checking", "5 C05", "gram",
         "For every sentence of the bounded space the ambiguity flag is compared with the reference derivation count (>=2 needed for a set flag) and translation count (>=2 forces the flag), for all one_parse x cost x lookahead settings.",
         TECH + " (engine gram)"),
}
NOTE = "trusted: reference model (harness/ref.hpp, self-checked), gcc + sanitizer runtimes, fork; small-scope hypothesis beyond the stated bounds"

checks = []
for p in props:
    pid = p["id"]
    if pid not in CLAIMS:
        continue
    cat, ref, eng, text, tech = CLAIMS[pid]
    checks.append({
        "property_id": pid,
        "quick_cmd": "bin/vcheck %s --tier quick" % pid,
        "thorough_cmd": "bin/vcheck %s --tier thorough" % pid,
        "evidence_file": "/verif/evidence/%s.json" % pid,
        "replay_cmd_template": "bin/vcheck replay {path}",
        "engine": eng,
        "level_claimed": {"category": cat, "text": text, "design_ref": "DESIGN.md section " + ref},
        "level_note": NOTE,
        "technique": tech,
    })
NA_REASON = "check not built yet in this round (engine under construction); no claim is made"
hooks_commits = []
try:
    out = subprocess.run(["git", "-C", "/repo", "log", "--format=%H %s"], stdout=subprocess.PIPE, text=True).stdout
    hooks_commits = [l.split()[0] for l in out.splitlines() if " verif-hook:" in l]
except Exception:
    pass
m = {
    "version": 1,
    "setup_cmd": "bin/vcheck build c cxx c-asan cxx-asan",
    "hooks": {"guard": "YAEP_VERIF", "enable": "checks compile /repo/src with -DYAEP_VERIF (bin/vcheck build)",
              "baseline_off_cmd": "bin/baseline_off.sh", "source_commits": hooks_commits, "add_only": True},
    "engines": [
        {"name": "gram", "path": "harness/eng_gram.cc", "serves_properties": ["C01", "C02", "C03", "C04", "C05", "C06", "C07", "C08", "C09", "C13"],
         "kind_free_text": "explicit enumeration of bounded grammar families x inputs x flag vectors on the real library, reference-model oracle, fork-contained batches with bisection and replay-before-report"},
    ],
    "checks": checks,
    "not_applicable": [{"property_id": p["id"], "reason": NA_REASON} for p in props if p["id"] not in CLAIMS],
    "notes": "Exit protocol: 0 held / 1 + VIOLATION line / 2 machinery error. Known findings: known_findings.json.",
}
json.dump(m, open(os.path.join(VERIF, "MANIFEST.json"), "w"), indent=1)
print("MANIFEST.json: %d checks, %d not_applicable" % (len(checks), len(m["not_applicable"])))
