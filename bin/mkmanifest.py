#!/usr/bin/env python3
"""Regenerates MANIFEST.json from the table below (kept next to the plans)."""
import json, os, subprocess
VERIF = os.path.dirname(os.path.dirname(os.path.abspath(__file__)))
props = [json.loads(l) for l in open(os.path.join(VERIF, "properties.jsonl"))]

TECH = "bounded exhaustive enumeration of inputs on the real code, judged by a reference model"
CLAIMS = {
 "C01": ("model_checking", "5 C01", "gram",
         "Every grammar of the bounded families x every token string up to length n x all 24 flag vectors is executed on the real library; the verdict is compared with an independent span-fixpoint recogniser; the chain families CH(k) add the declaration-order axis (every order of rule groups and of start rules) that the FIRST/FOLLOW fixpoints depend on. Complete within the stated bounds, nothing beyond them.",
         TECH + " (engine gram)"),
 "C02": ("model_checking", "5 C02", "gram",
         "All sentences of all grammars of the families, under a per-rule translation menu, parsed with one_parse=1 (cost flag off and on; with the cost flag the tree is compared without cost fields); the returned node graph is checked structurally and its single tree must be a member of the reference set T(w) of translations of all derivations.",
         TECH + " (engine gram, translation menus)"),
 "C05": ("model_checking", "5 C05", "gram",
         "For every sentence of the bounded space the ambiguity flag is compared with the reference derivation count (>=2 needed for a set flag) and translation count (>=2 forces the flag), for all one_parse x cost x lookahead settings.",
         TECH + " (engine gram)"),
 "C03": ("model_checking", "5 C03", "gram",
         "All sentences of the bounded families under the translation menus, all parses requested: Den(DAG) (one alternative per ALT occurrence) is compared in both directions with the reference set of translations of all derivations; acyclicity and ALT shape checked on the real node graph. Two genuine defects of the DAG builder (D23, D24) are recorded as known findings with reference-side class predicates; the 'no spurious tree' direction and shape are checked everywhere.",
         TECH + " (engine gram, all-parses)"),
 "C04": ("model_checking", "5 C04", "gram",
         "Cost flag on/off x one/all parses x cost menus x translation menus over the bounded families: denoted set = argmin of the reference translation costs, cost fields sum up, root cost = minimum; with the tracking parse_free and with NULL. Missing minimal translations that are consequences of D23/D24 are attributed to those findings.",
         TECH + " (engine gram, cost menus)"),
 "C06": ("model_checking", "5 C06", "gram",
         "All non-sentences of strict-accepted grammars of the families (with and without error rules) x lookahead x recovery on/off x recovery_match 1..5: the first reported error token equals the first non-viable prefix computed by the reference for G'' (error as ordinary terminal, implicit rule), recovery-off arguments, and for every call the range/attribute/monotonicity relations.",
         TECH + " (engine gram, viable-prefix reference)"),
 "C07": ("model_checking", "5 C07", "gram",
         "Every token string up to length n for every grammar of the error families with recovery on: returns 0, well-formed non-NULL tree, callbacks iff non-sentence, every denoted tree is a translation of some repaired input whose replaced segments total the reported ignored count (all repairs enumerated, up to n+1 segments), and the unique-segment rule. TERM attributes of recovered trees are compared by code only (see DESIGN.md, D20).",
         TECH + " (engine gram, repair enumeration)"),
 "C08": ("model_checking", "5 C08", "gram",
         "First syntax error of every non-sentence of the error families x recovery_match 1..5 x lookahead: the reported ignored count is compared with the minimum over all simple recoveries (back to p where error is expected, skip to q, match m tokens or everything up to end of input) computed by the reference from viable prefixes.",
         TECH + " (engine gram, simple-recovery bound)"),
 "C13": ("model_checking", "5 C13", "gram",
         "Every parse of the bounded space on a fresh object under a tracking allocator whose blocks are never recycled inside a case: parse_free only gets live blocks of the same parse, at most once; everything reachable lies in live blocks; the tree is unchanged after yaep_free_grammar; yaep_free_tree releases every block exactly once and calls the terminal callback once per TERM; definition inputs are freed right after the defining call (ASan job).",
         TECH + " (engine gram, tracking allocator monitor)"),
 "C09": ("model_checking", "5 C09", "gram",
         "Differential over lookahead arguments {0,1,2,-5,3,7,INT_MAX} and debug levels {0..6,-1} on every case of the bounded families, plus the cache soundness hook: every hit of the (set, terminal, lookahead) goto cache is recomputed and must give the same hash-consed set, also on exhaustively generated repetitive inputs (all concatenations of <= r fragments, one offending fragment at every position, extended periodically to hundreds / thousands of tokens).",
         TECH + " (engine gram: cross-configuration differential + YAEP_VERIF cache self-check hook)"),
 "C11": ("model_checking", "5 C11", "txt",
         "Every grammar of the families printed under a product of 384 lexical variations must give what yaep_read_grammar gives on the denoted grammar (return code and all parses on all short inputs); all prefixes / single-character edits of 28 seed texts and all byte strings up to length 4 (5) over a lexer-covering alphabet are judged by a three-valued reference reader of the documented syntax.",
         "bounded exhaustive enumeration of description texts on the real code against a reference reader and the callback-defined twin (engine txt)"),
 "C12": ("model_checking", "5 C12", "txt",
         "The enumerations of the txt, def, hist and gram engines re-run under ASan + UBSan subset + watchdog, plus long symbol names through every message-producing error (message length <= 200) and 300-symbol grammars; any sanitizer report, signal, exit() or timeout is a violation with the case attached. One known finding (D33, exponential recovery on densely recurring errors) bounds the recovery spaces to short inputs.",
         "bounded exhaustive enumeration on the real code under sanitizers as monitors (engines txt, def, hist, gram)"),
 "C10": ("model_checking", "5 C10", "def",
         "Full product of small terminal lists x rule lists (names incl. reserved ones, codes incl. negative/repeated, 17 translation/cost forms) x strict flag; rc = 0 iff the reference WF model finds no documented defect, otherwise rc names a defect that is present; error state, refusal to parse and a following good definition are checked after every rejection. The same verdict oracle runs over every grammar of the generated families GF(..) and CH(k) in engine gram.",
         "bounded exhaustive enumeration of callback-level descriptions on the real code against a reference well-formedness model (engine def)"),
 "C14": ("model_checking", "5 C14", "hist",
         "Every history of API operations over <= 2 (thorough 3) live objects up to a depth without deduplication, plus deduplicated BFS keyed on model state + a fingerprint of the library's file-scope state + live block count; each history in a pristine process; each call compared with the same call on a fresh object, plus leak-freedom when nothing is live.",
         "explicit-state exploration of API call histories on the real code (fork per history), fresh-object differential + contract model (engine hist)"),
 "C15": ("model_checking", "5 C15", "hist",
         "Same history space as C14 judged by the contract model (error code = code of the most recent failing call, messages non-empty, previous values of setters, defaults, clamping), plus all setter argument sequences of length <= 3 over 7 extreme values and token validation over 7 code layouts x all codes in/around the declared range x 3 positions, plus the NULL-allocator rule.",
         "explicit-state exploration of API call histories + exhaustive argument/code enumeration on the real code (engine hist)"),
 "C16": ("model_checking", "5 C16", "gram",
         "Every engine is built over the C functions and over class yaep with the separately written C++ containers; both run identical deterministic case spaces (grammar families incl. recovery and cost pruning, callback-level descriptions, description texts and mutants, API histories with yaep::free_tree) and emit per-group digests of all observations (codes, messages, callbacks, flags, denoted trees, allocation/free counts) that must agree group by group; the C++ runs are judged by the same reference oracles and also run under ASan.",
         "bounded exhaustive enumeration executed through both bindings, group-wise comparison of observation digests (all engines)"),
 "C17": ("fault_enumeration", "5 C17", "fault",
         "For 20 scenarios (create, definitions, parses over the main modes) and every k up to the number of allocation requests of the fault-free run, exactly request k fails (hook in allocate.c): NULL / YAEP_NO_MEMORY, error code, no sanitizer report or exit, object freeable, bystander object intact. 446 of 790 single faults behave as stated; the other 344 are two recorded findings (D15, D34), listed case by case so that any other failing (scenario,k) is reported.",
         "exhaustive single-fault enumeration over every allocation request of each scenario on the real code (engine fault, YAEP_VERIF hook)"),
 "C18": ("exploration", "5 C18", "scale",
         "The complete finite grid of 4 deterministic left-recursive grammar/input families x lengths 1000*2^j (j<=5 quick, j<=9 = 512k tokens thorough) x lookahead 0..2, measured in machine-independent units (allocator bytes/requests via hook, hash searches/collisions, set statistics) against frozen doubling-ratio limits, per-token caps, constant set cores and a minimum share of goto-cache hits. Exhaustive over the grid only; no asymptotic claim; ANSI C on test.i not included.",
         "exhaustive measurement over a finite grid of input lengths with calibrated growth limits (engine scale)"),
 "C19": ("model_checking", "5 C19", "cont",
         "Explicit-state BFS over operation histories of the real hash table (fixpoint under a slot cap, 4 hash functions incl. constant), object stack and VLO (depth-bounded, tiny segment sizes, realloc moving / shrinking in place) for the C and the C++ implementations, against std::set / byte-string models after every operation, under ASan.",
         "explicit-state exploration of container operation histories on the real code with canonical-layout deduplication (engine cont)"),
}
NOTE = "trusted: reference model (harness/ref.hpp, self-checked), gcc + sanitizer runtimes, fork; small-scope hypothesis beyond the stated bounds"

checks = []
for p in props:
    pid = p["id"]
    if pid not in CLAIMS:
        continue
    cat, ref, eng, text, tech = CLAIMS[pid]
    checks.append({
        "property_id": pid,
        "quick_cmd": "bin/vcheck %s --tier quick" % pid,
        "thorough_cmd": "bin/vcheck %s --tier thorough" % pid,
        "evidence_file": "/verif/evidence/%s.json" % pid,
        "replay_cmd_template": "bin/vcheck replay {path}",
        "engine": eng,
        "level_claimed": {"category": cat, "text": text, "design_ref": "DESIGN.md section " + ref},
        "level_note": NOTE,
        "technique": tech,
    })
NA_REASON = "check not built yet in this round (engine under construction); no claim is made"
hooks_commits = []
try:
    out = subprocess.run(["git", "-C", "/repo", "log", "--format=%H %s"], stdout=subprocess.PIPE, text=True).stdout
    hooks_commits = [l.split()[0] for l in out.splitlines() if " verif-hook:" in l]
except Exception:
    pass
m = {
    "version": 1,
    "setup_cmd": "bin/vcheck build c cxx c-asan cxx-asan cont-c cont-cxx c-perf",
    "hooks": {"guard": "YAEP_VERIF", "enable": "checks compile /repo/src with -DYAEP_VERIF (bin/vcheck build)",
              "baseline_off_cmd": "bin/baseline_off.sh", "source_commits": hooks_commits, "add_only": True},
    "engines": [
        {"name": "fault", "path": "harness/eng_fault.cc", "serves_properties": ["C17"], "kind_free_text": "single allocation fault enumeration (every request index of every scenario) through the YAEP_VERIF hook in allocate.c, one forked child per fault"},
        {"name": "scale", "path": "harness/eng_scale.cc", "serves_properties": ["C18"], "kind_free_text": "work measurement over a finite grid of input lengths in machine-independent units"},
        {"name": "txt", "path": "harness/eng_txt.cc", "serves_properties": ["C11", "C12"], "kind_free_text": "enumeration of description texts (printed grammars x lexical variations, 1-edit mutants, short byte strings) judged by a three-valued reference reader and the callback-defined twin"},
        {"name": "def", "path": "harness/eng_def.cc", "serves_properties": ["C10", "C12"], "kind_free_text": "product enumeration of callback-level grammar descriptions, reference well-formedness model"},
        {"name": "hist", "path": "harness/eng_hist.cc", "serves_properties": ["C14", "C15"], "kind_free_text": "exploration of API call histories, one pristine forked process per history, fresh-object differential, dedup on model state + file-scope fingerprint (hook) + live blocks (hook)"},
        {"name": "cont", "path": "harness/eng_cont.cc", "serves_properties": ["C19"], "kind_free_text": "explicit-state BFS over container operation histories (C and C++), canonical layout states, harness allocator with explored realloc behaviour"},
        {"name": "gram", "path": "harness/eng_gram.cc", "serves_properties": ["C01", "C02", "C03", "C04", "C05", "C06", "C07", "C08", "C09", "C10", "C12", "C13", "C16"],
         "kind_free_text": "explicit enumeration of bounded grammar families x inputs x flag vectors on the real library, reference-model oracle, fork-contained batches with bisection and replay-before-report"},
    ],
    "checks": checks,
    "not_applicable": [{"property_id": p["id"], "reason": NA_REASON} for p in props if p["id"] not in CLAIMS],
    "notes": "Exit protocol: 0 held / 1 + VIOLATION line / 2 machinery error. Known findings: known_findings.json.",
}
json.dump(m, open(os.path.join(VERIF, "MANIFEST.json"), "w"), indent=1)
print("MANIFEST.json: %d checks, %d not_applicable" % (len(checks), len(m["not_applicable"])))
