#!/bin/bash
# Build /repo's working tree with the YAEP_VERIF guard OFF in a scratch dir outside
# /repo and /verif, run the project's ctest suite, compare with BASELINE.json's stable list.
# usage: baseline_off.sh [srcdir]   (default /repo)
set -u
SRC=${1:-/repo}
D=$(mktemp -d /var/tmp/yaep-baseline.XXXXXX)
trap 'rm -rf "$D"' EXIT
cmake -G Ninja -S "$SRC" -B "$D/b" -DCMAKE_BUILD_TYPE=Release >"$D/cmake.log" 2>&1 || { cat "$D/cmake.log"; echo "BASELINE-OFF: configure failed"; exit 2; }
# the project's yaep_test targets lack a dependency on the generated sgramm.c (upstream build race): generate it first
cmake --build "$D/b" --target sgramm_c >"$D/build0.log" 2>&1
# ... and test/compare_parsers links -lyaep by name without depending on the library target
cmake --build "$D/b" --target yaep_static yaep++_static >>"$D/build0.log" 2>&1
cmake --build "$D/b" >"$D/build.log" 2>&1 || { tail -50 "$D/build.log"; echo "BASELINE-OFF: build failed"; exit 2; }
ctest --test-dir "$D/b" -j8 --timeout 900 --output-junit "$D/junit.xml" >"$D/ctest.log" 2>&1
python3 - "$D/junit.xml" <<'PY'
import sys, json, xml.etree.ElementTree as ET
base = json.load(open('/root/.vp/BASELINE.json'))
want = set(n.split('::')[0] for n in base['stable_pass'])
t = ET.parse(sys.argv[1]).getroot()
passed = set()
for tc in t.iter('testcase'):
    ok = tc.find('failure') is None and tc.find('error') is None and tc.get('status','run') in ('run','passed')
    if ok: passed.add(tc.get('name'))
missing = sorted(want - passed)
print("BASELINE-OFF: %d/%d stable tests pass" % (len(want & passed), len(want)))
if missing:
    print("BASELINE-OFF: failing:", ' '.join(missing)); sys.exit(1)
PY
