"""Per-property exploration plans: which engine runs over which bounded space."""
import os

NPROC = int(os.environ.get("VERIF_JOBS", "16"))


class Job:
    def __init__(self, name, variant, args, shards=NPROC, env=None):
        self.name, self.variant, self.args, self.shards, self.env = name, variant, args, shards, env or {}


FAM_DESC = {
    "mini": "GF(T=1,N=2,R=2,L=2,B=5)", "minie": "GF(1,2,2,2,5)+error",
    "q": "GF(T=2,N=2,R=3,L=2,B=7)", "qe": "GF(2,2,3,2,7)+error", "t1": "GF(2,2,4,3,9)", "t2": "GF(2,3,4,2,9)",
    "cur": "curated grammars (harness/curated.hpp)", "q3": "GF(2,2,2,3,7)", "q3e": "GF(2,2,2,3,7)+error",
    "ch3": "CH(3): S : z Ni ti for every ordered non-empty subset of N1..N3, Ni : ci and/or Ni : Nj in both orders, rule groups in every order; inputs z cj ti",
    "ch4": "CH(4), own/unit order chosen once for all nonterminals; inputs z cj ti",
    "ch4s": "CH(4) with the start rules S : z N1 t1 | .. | z N4 t4 only; inputs z cj ti",
    "rep": "6 curated grammars on generated repetitive inputs: all concatenations of <= r fragments with one offending fragment at every position (<= 30 tokens)",
}
CHFL = ["--la", "0,1,2", "--one", "1", "--cost", "0", "--rec", "0"]

TRUST = [
    "reference model harness/ref.hpp (span fixpoint + plain recursion), self-checked on closed-form facts",
    "small-scope hypothesis: nothing is claimed outside the stated families / lengths (per grammar the length bound is lowered until it has <= 60 000 inputs)",
    "gcc, its sanitizer runtimes, fork semantics",
]


def gram(prop, name, variant, family, n, extra, shards=NPROC):
    return Job(name, variant, ["gram", "--family", family, "--props", prop, "--n", str(n)] + extra, shards)


def plan(prop, tier):
    q = tier == "quick"
    P = {}
    base = {
        "level": "model_checking", "states_key": "inputs", "transitions_key": "parses", "assumptions": TRUST,
        "nontrivial_key": "inputs", "require": {"parses": 1000},
    }
    if prop == "C01":
        jobs = [gram("C01", "q", "c", "q", 4 if q else 6, []),
                gram("C01", "cur", "c", "cur", 5 if q else 7, [], shards=4),
                gram("C01", "q-asan", "c-asan", "mini", 4, ["--fresh"]),
                gram("C01", "ch4s", "c", "ch4s", 3, CHFL),
                Job("repetitive", "c", ["gram", "--family", "rep", "--props", "C01", "--r", "3" if q else "4", "--len", "0"], NPROC)]
        if not q:
            jobs += [gram("C01", "qe", "c", "qe", 5, []), gram("C01", "t1", "c", "t1", 5, []),
                     gram("C01", "t2", "c", "t2", 5, ["--one", "0,1", "--cost", "0"]),
                     gram("C01", "q-ov1", "c", "q", 5, ["--ovs", "1"]),
                     gram("C01", "ch3", "c", "ch3", 3, CHFL), gram("C01", "ch4", "c", "ch4", 3, CHFL),
                     gram("C01", "q-perm", "c", "q", 5, ["--ovs", "101,102,103,104,105", "--la", "1,2"]),
                     gram("C01", "t2-perm", "c", "t2", 5, ["--ovs", ",".join(str(100 + k) for k in range(1, 24)), "--la", "1", "--one", "1", "--cost", "0", "--rec", "0"])]
        P = dict(base, jobs=jobs, nontrivial_key="inputs_sentence",
                 rule="every canonical grammar of the family accepted by yaep_read_grammar x every token string of length <= n over its terminals x 24 flag vectors (lookahead 0..2 x one_parse x cost x recovery); the chain families CH(k) (declaration-order sensitive FIRST/FOLLOW fixpoints) with their own inputs; thorough: rule order reversed per lhs and the first 5 (q) / 23 (t2) permutations of the rule list; oracle: reference span-fixpoint recogniser; distinct_nontrivial = distinct (grammar,input) pairs that are sentences",
                 bounds={"families": [FAM_DESC[j.args[2]] for j in jobs], "max_input_length": 4 if q else 6, "flag_vectors": 24},
                 require={"parses": 100000, "inputs_sentence": 1000, "inputs_nonsentence": 1000})
    elif prop in ("C02", "C03", "C05"):
        fl = {"C02": ["--one", "1", "--cost", "0,1"], "C03": ["--one", "0", "--cost", "0", "--rec", "1"], "C05": ["--rec", "1"]}[prop]
        jobs = [gram(prop, "q-vary", "c", "q", 4 if q else 5, ["--tm", "vary"] + fl),
                gram(prop, "cur", "c", "cur", 6 if q else 8, fl, shards=4),
                gram(prop, "q3-vary", "c", "q3", 5, ["--tm", "vary"] + fl),
                gram(prop, "mini-asan", "c-asan", "mini", 4, ["--tm", "full", "--fresh"] + fl)]
        if not q:
            jobs += [gram(prop, "q-full", "c", "q", 4, ["--tm", "full"] + fl),
                     gram(prop, "q3-vary6", "c", "q3", 6, ["--tm", "vary"] + fl),
                     gram(prop, "t1-u0", "c", "t1", 5, ["--tm", "u0"] + fl),
                     gram(prop, "t2-u0", "c", "t2", 5, ["--tm", "u0"] + fl)]
        nt = {"C02": "c02_cases", "C03": "c03_cases_ambiguous", "C05": "c05_cases_ambiguous"}[prop]
        P = dict(base, jobs=jobs, nontrivial_key=nt,
                 rule="grammars of the family x per-rule translation menu (abstract node all/reversed/last/(first,-)/(), no #, # -, # k) x all sentences of length <= n x lookahead levels; oracle: set T(w) of translations of all derivations enumerated by the reference; distinct_nontrivial counted by the engine (%s)" % nt,
                 bounds={"families": [FAM_DESC[j.args[2]] + " tm=" + (j.args[j.args.index("--tm") + 1] if "--tm" in j.args else "u0") for j in jobs], "max_input_length": 4 if q else 5},
                 require={"parses": 100000, nt: 200})
    elif prop == "C04":
        full = ["--cost", "0,1", "--rec", "1", "--cms", "0,1,2,3,4", "--ams", "0,1"]
        jobs = [gram(prop, "q-vary", "c", "q", 4, ["--tm", "vary", "--cost", "1", "--rec", "1", "--cms", "1,3", "--ams", "0"]),
                gram(prop, "q-u0", "c", "q", 4, ["--tm", "u0"] + full),
                gram(prop, "cur", "c", "cur", 5 if q else 7, ["--cost", "0,1", "--ams", "0,1", "--rec", "1"], shards=NPROC),
                gram(prop, "mini-asan", "c-asan", "mini", 4, ["--tm", "vary", "--fresh", "--cost", "0,1", "--rec", "1", "--cms", "1,3", "--ams", "0,1"])]
        if not q:
            jobs += [gram(prop, "q-vary-cms", "c", "q", 4, ["--tm", "vary", "--cost", "1", "--rec", "1", "--cms", "0,1,2,3,4", "--ams", "0"]),
                     gram(prop, "t1-u0", "c", "t1", 5, ["--tm", "u0", "--cost", "1", "--rec", "1", "--cms", "1,3"]),
                     gram(prop, "q-full", "c", "q", 4, ["--tm", "full", "--cost", "1", "--rec", "1", "--cms", "1"])]
        P = dict(base, jobs=jobs, nontrivial_key="c04_cases_pruning_needed",
                 rule="grammars x translation menu x cost menus (all 1, ascending, descending, alternating 0/1, all 0) x sentences x lookahead x one_parse x cost flag x {tracking parse_free, NULL parse_free}; oracle: argmin of the reference translation costs + cost-field summation; distinct_nontrivial = cases where some translation is not minimal",
                 bounds={"max_input_length": 4 if q else 5}, require={"parses": 100000, "c04_cases_pruning_needed": 50})
    elif prop == "C09":
        fl = ["--la", "0,1,2,-5,3,7,2147483647"]
        jobs = [gram(prop, "q-la", "c", "q", 4, fl), gram(prop, "qe-la", "c", "qe", 4 if q else 5, fl + ["--rec", "1"]),
                gram(prop, "cur-la", "c", "cur", 5 if q else 7, fl, shards=NPROC),
                gram(prop, "cur-debug", "c-asan", "cur", 4, ["--la", "1", "--debug", "0,1,2,3,4,5,6,-1", "--rec", "1"], shards=NPROC),
                Job("repetitive", "c", ["gram", "--family", "rep", "--props", "C09", "--r", "3" if q else "4", "--len", "300" if q else "2000"], NPROC,
                    env={"VERIF_ANSIC_DESC": os.path.join(os.environ.get("VERIF_BUILD", os.path.join(os.path.dirname(os.path.dirname(os.path.abspath(__file__))), "build")), "gen", "ansic_desc.txt"),
                         "VERIF_ANSIC_TOKS": os.path.join(os.environ.get("VERIF_BUILD", os.path.join(os.path.dirname(os.path.dirname(os.path.abspath(__file__))), "build")), "gen", "ansic_tokens.txt")})]
        if not q:
            jobs += [gram(prop, "q3-la", "c", "q3", 5, fl), gram(prop, "t1-la", "c", "t1", 5, ["--la", "0,1,2", "--one", "1", "--cost", "0", "--rec", "1"])]
        P = dict(base, jobs=jobs, nontrivial_key="c09_comparisons",
                 rule="(a) differential: for every (grammar,input,one_parse,cost,recovery) of the families the canonical observation (code, syntax_error calls, flag, denoted tree set with costs) is compared across lookahead arguments {0,1,2,-5,3,7,INT_MAX} and across debug levels {0..6,-1} (ASan, stderr discarded); (b) cache soundness: with the YAEP_VERIF hook every hit of the (set, terminal, lookahead) cache is recomputed with build_new_set and must give the same (hash-consed) set - on all those parses and on exhaustively generated repetitive inputs: all concatenations of <= r fragments per curated grammar, with one offending fragment inserted at every position, also extended periodically to the target length; distinct_nontrivial = cross-level comparisons made",
                 bounds={"max_input_length": 4, "repetitive_fragments": 3 if q else 4, "repetitive_length": 300 if q else 2000},
                 require={"c09_comparisons": 10000, "c09_cache_hits_checked": 1000})
    elif prop == "C13":
        fl = ["--fresh", "--ams", "0,1,2", "--la", "1"]
        jobs = [gram(prop, "q", "c", "q", 4, ["--tm", "vary", "--cms", "3", "--rec", "1"] + fl),
                gram(prop, "qe", "c", "qe", 3, ["--rec", "1"] + fl),
                gram(prop, "cur", "c-asan", "cur", 4 if q else 6, fl, shards=NPROC)]
        if not q:
            jobs += [gram(prop, "q3", "c", "q3", 5, ["--tm", "vary", "--cms", "3", "--rec", "1"] + fl), gram(prop, "q3e", "c", "q3e", 4, ["--rec", "1"] + fl)]
        P = dict(base, jobs=jobs, nontrivial_key="c13_cases_with_alt", states_key="c13_cases",
                 rule="every parse of the space (one/all parses x cost flag x {tracking alloc+free, tracking alloc with NULL free, default allocator}) on a fresh object under a tracking parse_alloc/parse_free pair whose blocks are never recycled within a case: pairing, same-parse, at-most-once, everything reachable inside live blocks, tree unchanged after yaep_free_grammar, yaep_free_tree frees every block once and calls termcb once per TERM; definition inputs are freed right after the defining call",
                 bounds={"max_input_length": 4}, require={"c13_cases": 10000, "c13_cases_with_alt": 100})
    elif prop in ("C06", "C07", "C08"):
        fl = ["--la", "0,1,2", "--one", "0,1", "--cost", "0", "--match", "1,2,3,4,5"]
        fl += ["--rec", "0,1"] if prop == "C06" else ["--rec", "1"]
        jobs = [gram(prop, "qe", "c", "qe", 4, fl), gram(prop, "cur", "c", "cur", 5 if q else 6, fl, shards=NPROC),
                gram(prop, "minie-asan", "c-asan", "minie", 4, fl + ["--fresh"])]
        if prop != "C08":
            jobs.append(gram(prop, "q", "c", "q", 4, ["--la", "0,1,2", "--one", "1", "--cost", "0", "--match", "1,3", "--rec", "0,1" if prop == "C06" else "1"]))
        if prop == "C06":   # first error position on inputs that repeat fragments (the goto cache is idle on inputs of length <= 6)
            jobs.append(Job("repetitive", "c", ["gram", "--family", "rep", "--props", "C06", "--r", "3" if q else "4", "--len", "0"], NPROC))
        if not q:
            jobs += [gram(prop, "q3e", "c", "q3e", 5, fl), gram(prop, "qe-vary", "c", "qe", 4, ["--tm", "vary", "--la", "1", "--one", "0,1", "--cost", "0", "--match", "1,3", "--rec", "1"])]
        nt = {"C06": "c06_cases", "C07": "c07_recovered_cases", "C08": "c08_nonzero_bound"}[prop]
        P = dict(base, jobs=jobs, nontrivial_key=nt,
                 rule="grammars of the families with 0-3 `error' occurrences x all token strings up to length n x lookahead 0..2 x one/all parses x recovery_match 1..5 (x recovery on/off for C06); oracles from the reference model: first non-viable prefix of G'' (error as terminal, implicit rule), argument relations; C06 also on generated repetitive inputs (concatenations of <= r fragments of 6 curated grammars with one offending fragment at every position, <= 30 tokens); tree in the translations of some repair (segments replaced by error, up to n+1 segments) whose deleted length equals the reported total, unique-segment rule; bound = cheapest simple recovery (back p, skip to q, match m) measured from the reported error token",
                 bounds={"max_input_length": 4, "recovery_match": [1, 2, 3, 4, 5]}, require={"parses": 100000, nt: 1000})
    elif prop in ("C11", "C12"):
        pa = ["--prop", prop]
        if prop == "C11":
            jobs = [Job("printed-mini", "c", ["txt", "--mode", "printed", "--family", "mini", "--tm", "vary", "--inputs", "3"] + pa, NPROC),
                    Job("printed-q", "c", ["txt", "--mode", "printed", "--family", "q", "--tm", "u0", "--inputs", "2", "--varstride", "16" if q else "4"] + pa, NPROC),
                    Job("mutations", "c-asan", ["txt", "--mode", "mutations", "--inputs", "2"] + pa, NPROC),
                    Job("bytes", "c", ["txt", "--mode", "bytes", "--len", "4" if q else "5"] + pa, NPROC),
                    Job("termdecl", "c", ["txt", "--mode", "termdecl", "--k", "3" if q else "4"] + pa, NPROC)]
            if not q:
                jobs += [Job("printed-qe", "c", ["txt", "--mode", "printed", "--family", "qe", "--tm", "u0", "--inputs", "2", "--varstride", "8"] + pa, NPROC),
                         Job("printed-q3", "c", ["txt", "--mode", "printed", "--family", "q3", "--tm", "vary", "--inputs", "2", "--varstride", "16"] + pa, NPROC)]
            P = dict(base, jobs=jobs, states_key="texts", transitions_key="texts", nontrivial_key="texts_valid",
                     rule="(a) every grammar of the family x translation menu printed under the product of lexical variations (separator blank/newline/tab/comment, optional semicolons, TERM section before/after/both/split, identifiers with explicit codes / implicit codes / character constants, repeated declaration, cost written or omitted = 384 variants; a stride samples variants for the larger family) - yaep_parse_grammar must return what yaep_read_grammar returns on the denoted grammar and give identical parses (all parses, cost flag off/on) on all inputs up to length 3; the reference reader must denote exactly the printed grammar (self-check); (b) all prefixes and all single-character deletions, insertions and substitutions (20-character alphabet) of 28 seed texts, (c) all byte strings up to length 4 (thorough 5) over that alphabet, each judged by the three-valued reference reader: VALID -> equal to yaep_read_grammar on the denoted grammar, INVALID -> documented nonzero code, line number inside the text, UNSPECIFIED -> returns a documented code; distinct_nontrivial = texts the reference reads as VALID",
                     bounds={"lexical_variants": 384, "mutation_alphabet": 20, "byte_string_length": 4 if q else 5},
                     require={"texts": 100000, "texts_valid": 10000, "texts_invalid": 10000, "behaviour_comparisons": 10000})
        else:
            jobs = [Job("bytes-asan", "c-asan", ["txt", "--mode", "bytes", "--len", "4" if q else "5"] + pa, NPROC),
                    Job("mutations-asan", "c-asan", ["txt", "--mode", "mutations", "--inputs", "1"] + pa, NPROC),
                    Job("longnames-asan", "c-asan", ["txt", "--mode", "longnames"] + pa, 1),
                    Job("def-asan", "c-asan", ["def", "--sample", "53" if q else "7", "--prop", "C12"], NPROC),
                    Job("hist-asan", "c-asan", ["hist", "--slots", "2", "--full", "4", "--bfs", "4" if q else "5", "--props", "C12,C14,C15,C13", "--crash-prop", "C12"], 1),
                    gram("C12", "gram-q-asan", "c-asan", "q", 3 if q else 4, ["--tm", "u0" if q else "vary", "--fresh", "--la", "1,2", "--one", "0,1", "--cost", "0,1", "--rec", "1", "--ams", "0,2"]),
                    gram("C12", "gram-qe-asan", "c-asan", "qe", 3 if q else 4, ["--fresh", "--la", "1", "--one", "0,1", "--cost", "0,1", "--rec", "1", "--match", "1,3", "--ams", "0"]),
                    gram("C12", "gram-mini-asan", "c-asan", "mini", 4, ["--tm", "vary", "--cms", "3", "--fresh", "--la", "0,1,2", "--one", "0,1", "--cost", "0,1", "--rec", "1", "--ams", "0,2"]),
                    gram("C12", "gram-cur-asan", "c-asan", "cur", 4 if q else 5, ["--la", "0,1,2", "--ams", "0,2"], shards=NPROC)]
            P = dict(base, jobs=jobs, states_key="texts", transitions_key="texts", nontrivial_key="texts",
                     rule="union of the engines under ASan + UBSan(signed-integer-overflow, shift, divide-by-zero, null, bounds) + watchdog: all byte strings up to the length and all 1-edit mutants/prefixes of the seed texts as descriptions (exactly sized heap blocks), symbol names of 1..1000 characters through every message-producing error with strlen(message) <= 200, 300-symbol grammars with dense and sparse codes, a slice of the callback-level description product, API histories, the parse spaces of the gram engine incl. recovery, all-parses, cost pruning and the default allocator; any sanitizer report, signal, exit() or timeout is a violation with the case attached",
                     bounds={"byte_string_length": 4 if q else 5}, require={"texts": 100000, "parses": 100000, "definitions": 10000, "long_name_cases": 100})
    elif prop == "C16":
        pairs = [("gram-q", ["gram", "--family", "q", "--props", "C01,C02,C03,C05,C09", "--n", "4" if q else "5", "--tm", "u0", "--digest"], NPROC),
                 ("gram-q-vary", ["gram", "--family", "q", "--props", "C02,C03,C04,C13", "--n", "3" if q else "4", "--tm", "vary", "--la", "1", "--cost", "0,1", "--rec", "1", "--cms", "3", "--ams", "0,1", "--digest"], NPROC),
                 ("gram-qe", ["gram", "--family", "qe", "--props", "C06,C07,C08", "--n", "4", "--la", "0,1,2", "--one", "0,1", "--cost", "0", "--rec", "0,1", "--match", "1,3", "--digest"], NPROC),
                 ("gram-cur", ["gram", "--family", "cur", "--props", "C01,C03,C07", "--n", "5" if q else "6", "--cost", "0", "--digest"], NPROC),
                 ("gram-c13", ["gram", "--family", "cur", "--props", "C13", "--n", "4", "--fresh", "--la", "1", "--ams", "0,1,2", "--digest"], NPROC),
                 ("def", ["def", "--sample", "7" if q else "1"], NPROC),
                 ("txt-mut", ["txt", "--mode", "mutations", "--inputs", "1", "--prop", "C11"], NPROC),
                 ("txt-printed", ["txt", "--mode", "printed", "--family", "mini", "--tm", "vary", "--inputs", "2", "--prop", "C11"], NPROC),
                 ("hist", ["hist", "--slots", "2", "--full", "5", "--bfs", "0"], 1)]
        jobs = []
        for name, args, sh in pairs:
            jobs.append(Job(name + "-c", "c", args, sh)); jobs.append(Job(name + "-cxx", "cxx", args, sh))
        jobs += [Job("cont-hist-cxx-asan", "cxx-asan", ["hist", "--slots", "2", "--full", "4", "--bfs", "0"], 1),
                 gram("C13", "gram-cur-cxx-asan", "cxx-asan", "cur", 4, ["--fresh", "--la", "1", "--ams", "0,2"], shards=NPROC)]

        def post(merged, viols):
            pj = merged["per_job"]
            for name, args, sh in pairs:
                a, b = pj.get(name + "-c", {}).get("counters", {}), pj.get(name + "-cxx", {}).get("counters", {})
                keys = sorted(set(k for k in list(a) + list(b) if k.startswith("dg:")))
                merged["counters"]["c16_digest_groups_compared"] = merged["counters"].get("c16_digest_groups_compared", 0) + len(keys)
                bad = [k for k in keys if a.get(k) != b.get(k)]
                for k in bad[:5]:
                    gi = k[3:]
                    v = {"property": "C16", "kind": "c-vs-cxx-observations-differ", "engine": args[0], "job": name + "-cxx", "variant": "cxx", "job_args": args,
                         "case": ("family=%s gi=%s" % (args[2], gi)) if args[0] == "gram" else "digest group " + gi, "grammar": "",
                         "detail": "the digest of all observations (return codes, messages, syntax_error calls, ambiguity flags, denoted trees, allocation counts) of group %s differs between the C library and the C++ class (job %s)" % (gi, name)}
                    viols.append(v)
                for k in ("parses", "definitions", "texts", "transitions"):
                    if a.get(k, 0) != b.get(k, 0):
                        viols.append({"property": "C16", "kind": "c-vs-cxx-coverage-differs", "engine": args[0], "job": name, "case": name, "grammar": "", "detail": "%s: %s in C, %s in C++" % (k, a.get(k), b.get(k))})
            # any violation of another property seen only through the C++ binding is a C16 violation
            for v in merged["violations"]:
                if str(v.get("job", "")).endswith("-cxx") or str(v.get("variant", "")).startswith("cxx"):
                    v["detail"] = "[seen through class yaep; property %s kind %s] " % (v.get("property"), v.get("kind")) + v.get("detail", "")
                    v["property"] = "C16"
                    viols.append(v)
        P = dict(base, jobs=jobs, post=post, known_all=True, states_key="inputs", transitions_key="parses", nontrivial_key="c16_digest_groups_compared",
                 rule="every engine is built twice: over the C functions (libyaep) and over class yaep with the separately written C++ containers (libyaep++); both run the same deterministic case spaces (grammar families incl. recovery and cost pruning, callback-level descriptions, description texts and their mutants, API histories with yaep::free_tree) and emit per-group digests of all observations (codes, messages, callbacks, flags, denoted trees, allocation/free counts); the digests must be equal group by group; the C++ runs are also judged by the same reference oracles, and run under ASan on a slice; distinct_nontrivial = digest groups compared",
                 bounds={"note": "quick spaces of C01-C15"}, require={"parses": 100000, "c16_digest_groups_compared": 500})
    elif prop == "C18":
        gen = os.path.join(os.environ.get("VERIF_BUILD", os.path.join(os.path.dirname(os.path.dirname(os.path.abspath(__file__))), "build")), "gen")
        jobs = [Job("scale", "c-perf", ["scale", "--jmax", "5" if q else "9", "--ansic-desc", gen + "/ansic_desc.txt", "--ansic-toks", gen + "/ansic_tokens.txt"], 25)]
        P = dict(base, level="exploration", jobs=jobs, states_key="parses", transitions_key="parses", nontrivial_key="doublings",
                 rule="complete finite grid: 4 deterministic left-recursive grammar/input families (list, flat sums, nested arithmetic, nested statement list) x lengths 1000*2^j, j = 0..5 (thorough 0..9 = 512k tokens) x lookahead 0,1,2 (one parse) and, at lookahead 1, also all-parses mode and one parse with the cost flag; plus the ANSI C grammar of the test suite on test.i concatenated 1, 2, 4 (8) times; measured per parse: bytes and requests asked from the allocator (YAEP_VERIF hook), hash table searches and collisions (exported counters), unique sets / set cores / goto-cache successes (level-1 statistics); oracle: frozen doubling-ratio limits and per-token caps calibrated with head-room on the unchanged tree, constant number of set cores, at most linear number of sets, >= 20 % of the transitions from the goto cache on the nesting inputs; distinct_nontrivial = length doublings compared",
                 bounds={"max_tokens": 32000 if q else 512000, "lookahead": [0, 1, 2]}, require={"parses": 80, "doublings": 60},
                 explanation="exhaustive over the stated grid; says nothing about n -> infinity; the ANSI C grammar on test.i is not part of the grid (needs the test suite's flex scanner)")
    elif prop == "C17":
        jobs = [Job("fault", "c-asan", ["fault", "--known-file", os.path.join(os.path.dirname(os.path.dirname(os.path.abspath(__file__))), "known_c17_cases.txt")], NPROC)]
        P = dict(base, level="fault_enumeration", jobs=jobs, states_key="fault_runs", transitions_key="fault_runs", nontrivial_key="faults_fired",
                 rule="23 scenarios (create; definitions by text and by callbacks, good and defective; parses covering lookahead 0/1/2, recovery, all parses, cost pruning with and without parse_free, sparse codes, invalid token, empty input; 80 terminals, 41 rules and a 12 001-token input so that vectors grow); the fault-free run of each scenario counts its N allocation requests (YAEP_VERIF hook in allocate.c), then for every k in 1..N a forked child makes exactly request k fail and checks: NULL / YAEP_NO_MEMORY, error code recorded, no sanitizer report or exit, the object can be freed, a bystander object defined before still parses to the same tree; distinct_nontrivial = runs in which the fault fired",
                 bounds={"scenarios": 23, "faults_per_scenario": "all k up to the fault-free request count"}, require={"fault_runs": 500, "faults_fired": 500})
    elif prop == "C10":
        jobs = [Job("def", "c", ["def"] + ([] if q else ["--thorough"]), NPROC), Job("def-asan", "c-asan", ["def", "--sample", "97"], NPROC)]
        # verdict of the grammar analysis on generated grammars (fixpoints sensitive to declaration order)
        gfl = ["--la", "1", "--one", "1", "--cost", "0", "--rec", "0"]
        jobs += [gram("C10", "gram-" + f, "c", f, 0, gfl) for f in (["q", "t2", "ch3", "ch4s"] if q else ["q", "qe", "t1", "t2", "ch3", "ch4"])]
        if not q:
            jobs += [gram("C10", "gram-t2-perm", "c", "t2", 0, gfl + ["--ovs", ",".join(str(100 + k) for k in range(1, 24))])]
        P = dict(base, jobs=jobs, states_key="definitions", transitions_key="definitions", nontrivial_key="nontrivial_rejections", deadline_s=540 if q else 3000,
                 rule="product of terminal lists (<= 2 terminals over names {a,b,error,$S,$eof} x codes {-1,0,1,300}) x rule lists (0 rules; 1 rule from the full menu lhs{S,A,a,error,$S} x rhs over {a,b,S,A,error,$eof} of length <= 2 x 17 translation/abstract-node/cost forms; 2 rules from reduced menus: quick 2 forms for the first rule and a short rhs menu for the second, thorough every lhs x rhs shape with 3 (first rule) x 4 (second rule) translation forms) x strict{0,1}; oracle: reference well-formedness WF = set of documented defects present; rc = 0 iff WF empty, rc in WF otherwise; then error code/message, parse refuses, a good definition afterwards behaves as on a fresh object; plus the same verdict oracle (loops, productivity, accessibility; strict and not) on every grammar of the generated families GF(...) and CH(k) fed through the callbacks; distinct_nontrivial = rejected descriptions",
                 bounds={"terminals": 2, "rules": 2, "rhs_length": 2, "quick_reduces_pair_menus": q},
                 require={"definitions": 100000, "accepted": 1000, "rejected": 1000, "rc_LOOP_NONTERM": 10, "rc_UNACCESSIBLE_NONTERM": 10, "rc_REPEATED_SYMBOL_NUMBER": 10})
    elif prop in ("C14", "C15"):
        if q:
            args = ["hist", "--slots", "2", "--full", "4", "--bfs", "6", "--props", prop]
            dl = 900   # depth 6 completes in ~6 min on 16 idle cores
        else:
            # the deduplicated BFS carries the depth; the full layer (no deduplication) guards the deduplication
            args = ["hist", "--slots", "3", "--full", "4", "--bfs", "7", "--props", prop]
            dl = 2400
        jobs = [Job("hist", "c", args, 1), Job("hist-asan", "c-asan", ["hist", "--slots", "2", "--full", "4", "--bfs", "4" if q else "5", "--props", prop], 1)]
        P = dict(base, jobs=jobs, states_key="states", transitions_key="transitions", nontrivial_key="states", deadline_s=dl,
                 rule="all histories of API operations {create, free, define(6 pool grammars: good by text with a terminal coded by the reader, good by callbacks with error rule and sparse codes, and one failing at each stage: description syntax, terminal declaration, rule reading, final grammar check), 5 setters, parse(sentence, non-sentence, undeclared token, second sentence), free_tree} over <= 2 (thorough 3) live objects: layer 1 = every history up to the full depth, no deduplication; layer 2 = BFS with deduplication on model state + file-scope-state fingerprint + live library blocks; every history runs in a pristine forked process; oracle per call = same call on a fresh object in a fresh process with the same definition and settings + contract model (codes, error state, previous values, leak-free when nothing is live); for C15 additionally all setter argument sequences of length <= 3 over {INT_MIN,-1,0,1,2,3,INT_MAX} and token validation over 7 code layouts x every code around/inside the declared range x 3 positions; distinct_nontrivial = distinct deduplicated states",
                 bounds={"slots": 2 if q else 3, "full_depth": 4, "bfs_depth_target": 6 if q else 7, "note": "BFS depth actually completed is in counters.bfs_depth_completed; deadline-bounded"},
                 require={"transitions": 5000, "states": 200})
    elif prop == "C19":
        jobs = []
        keys, cap, osd, vd = (4, 23, 8, 9) if q else (6, 47, 11, 13)
        for b in ("cont-c", "cont-cxx"):
            for h in range(4):
                jobs.append(Job("%s-ht%d" % (b, h), b, ["cont", "--what", "ht", "--hashfn", str(h), "--keys", str(keys), "--sizecap", str(cap)], 1))
            jobs.append(Job(b + "-os", b, ["cont", "--what", "os", "--depth", str(osd)], 1))
            jobs.append(Job(b + "-vlo", b, ["cont", "--what", "vlo", "--depth", str(vd)], 1))
            jobs.append(Job(b + "-vlo-inplace", b, ["cont", "--what", "vlo", "--depth", str(vd), "--realloc", "1"], 1))
        P = dict(base, jobs=jobs, states_key="states", transitions_key="transitions", nontrivial_key="states",
                 rule="explicit-state BFS over operation histories of the real containers (C and C++), state = canonical layout (hash table: size, raw counters, every slot EMPTY/DELETED/key; object stack: room, top offset, segments, top length; VLO: length, capacity), each state reached by replaying its history on a fresh object; the allocator under the containers is the harness' (tracks block sizes; realloc either always moves or shrinks in place - both explored for the VLO); hash table explored to a fixpoint under a slot cap with 4 hash functions (constant, identity, mod 2, *7), object stack / VLO to a depth with segment length 16 / default length 4; oracle: std::set / byte-string model after every operation, ASan on",
                 bounds={"hash_table": {"keys": keys, "slot_cap": cap, "hash_functions": 4}, "object_stack_depth": osd, "vlo_depth": vd, "bindings": ["c", "cxx"]},
                 require={"states": 1000, "transitions": 10000})
    else:
        return None
    return P
