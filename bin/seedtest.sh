#!/bin/bash
# seedtest.sh <seed-id> <property> <dir with patch.diff demo.c notes.txt> [demo build kind: c|cxx|cont]
# 1. confirms the seeded change in a scratch worktree (suite still 120/120, demo fails with / passes without)
# 2. applies it to /repo, runs the property's quick check (expects exit 1 + VIOLATION), undoes it
# 3. records everything in /verif/seeded/<seed-id>/meta.json
set -u
ID=$1; PROP=$2; SRCDIR=$3; KIND=${4:-c}
OUT=/verif/seeded/$ID; mkdir -p $OUT
[ "$SRCDIR" != "$OUT" ] && { cp $SRCDIR/patch.diff $OUT/patch.diff; cp $SRCDIR/notes.txt $OUT/notes.txt 2>/dev/null; }
for f in demo.c demo.cpp demo.sh demo_body.h demo_c.c; do [ -f $SRCDIR/$f ] && [ "$SRCDIR" != "$OUT" ] && cp $SRCDIR/$f $OUT/$f; done
WT=$(mktemp -d /tmp/seedwt.XXXXXX); rmdir $WT
git -C /repo worktree add -q --detach $WT HEAD || exit 2
trap 'git -C /repo worktree remove --force $WT >/dev/null 2>&1' EXIT
builddemo () {  # $1 = source tree, $2 = output exe
  local S=$1/src; local D=$(dirname $2)
  bison -o $D/sgramm.c $S/sgramm.y 2>/dev/null
  if [ -f $OUT/demo.cpp ]; then
    gcc -g -c -I$S $S/allocate.c -o $D/allocate.o && g++ -g -w -I$S -I$D $OUT/demo.cpp $S/yaep.cpp $S/hashtab.cpp $S/objstack.cpp $S/vlobject.cpp $D/allocate.o -o $2
  elif [ "$KIND" = cont ]; then
    gcc -g -w -I$S -I$D $OUT/demo.c $S/allocate.c $S/hashtab.c $S/objstack.c $S/vlobject.c -o $2
  else
    gcc -g -w -DYAEP_VERIF -I$S -I$D $OUT/demo.c $S/yaep.c $S/allocate.c $S/hashtab.c $S/objstack.c $S/vlobject.c -o $2
  fi
}
mkdir -p $WT/seedtmp
if [ -f $OUT/demo.sh ]; then   # the demo is a script working on the tree it lives in (e.g. C vs C++ transcripts)
  mkdir -p $WT/seed; cp $OUT/demo.sh $OUT/demo*.c* $OUT/demo*.h $WT/seed/ 2>/dev/null; chmod +x $WT/seed/demo.sh
  ( cd $WT && timeout 300 seed/demo.sh > seedtmp/demo0.out 2>&1 ); D0=$?
  ( cd $WT && git apply $OUT/patch.diff ) || { echo "patch does not apply"; exit 2; }
  ( cd $WT && timeout 300 seed/demo.sh > seedtmp/demo1.out 2>&1 ); D1=$?
else
builddemo $WT $WT/seedtmp/demo0 || { echo "demo does not build on the unchanged tree"; exit 2; }
( cd $WT/seedtmp && timeout 120 ./demo0 >demo0.out 2>&1 ); D0=$?
( cd $WT && git apply $OUT/patch.diff ) || { echo "patch does not apply"; exit 2; }
builddemo $WT $WT/seedtmp/demo1 || { echo "demo does not build with the change"; exit 2; }
( cd $WT/seedtmp && timeout 120 ./demo1 >demo1.out 2>&1 ); D1=$?
fi
SUITE=$(/verif/bin/baseline_off.sh $WT 2>&1 | tail -1)
echo "demo unchanged exit=$D0, demo changed exit=$D1, suite: $SUITE"
# run the check against the changed tree: same sources as "git -C /repo apply" would give, but in
# the scratch worktree (VERIF_REPO) with its own build/evidence/out dirs, so /repo stays untouched
export VERIF_REPO=$WT VERIF_BUILD=$WT/seedtmp/build VERIF_EVID=$WT/seedtmp/evidence VERIF_OUTD=$WT/seedtmp/out
( cd /verif && timeout 3000 bin/vcheck $PROP --tier ${TIER:-quick} > $OUT/check.log 2>&1 ); CK=$?
cp $WT/seedtmp/evidence/$PROP.json $OUT/evidence-with-change.json 2>/dev/null
NV=$(grep -c "^VIOLATION property=$PROP" $OUT/check.log)
grep "violation-class" $OUT/check.log | head -5 | cut -c1-400
echo "check $PROP quick with the change: exit=$CK, VIOLATION lines=$NV"
python3 - "$ID" "$PROP" "$D0" "$D1" "$SUITE" "$CK" "$NV" <<'PY'
import json,sys,os
id,prop,d0,d1,suite,ck,nv=sys.argv[1:]
out='/verif/seeded/%s'%id
notes=open(out+'/notes.txt').read() if os.path.exists(out+'/notes.txt') else ''
classes=[l.strip()[:500] for l in open(out+'/check.log') if l.startswith('violation-class')][:6]
meta={"seed":id,"breaks_property":prop,"origin":"independent sub-agent given only the property text and a scratch worktree",
 "needs_to_manifest":notes[:3000],
 "confirmed":{"demo_exit_unchanged":int(d0),"demo_exit_with_change":int(d1),"suite_with_change":suite,
   "how":"bin/seedtest.sh: scratch worktree of /repo HEAD, demo built against sources with and without patch.diff, bin/baseline_off.sh on the patched worktree"},
 "check":{"cmd":"bin/vcheck "+prop+" --tier "+os.environ.get("TIER","quick")+" (run against a scratch worktree of /repo HEAD with patch.diff applied)","exit":int(ck),"violation_lines":int(nv),"violation_classes":classes},
 "detected": int(ck)==1 and int(nv)>0}
json.dump(meta,open(out+'/meta.json','w'),indent=1)
print("detected:",meta["detected"])
PY
