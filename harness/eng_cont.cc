// Engine `cont': explicit-state exploration of the three containers on the real code
// (C or C++ implementation, chosen at link time through cont/ct.h), against std::set /
// byte-string reference models.  States are canonical layouts; a state is reached by
// replaying its operation history on a fresh object (objects are not copyable).
#include "common.hpp"
#include "cont/ct.h"
#include <set>
#include <deque>
#include <unordered_set>
#include <sys/mman.h>

// the history being executed is mirrored into shared memory so that a crash (ASan report,
// SEGV) can be attributed to the exact operation sequence by the parent
static char *g_shm;
static void note_history(const std::string &h) { if (g_shm) { strncpy(g_shm, h.c_str(), 4000); g_shm[4000] = 0; } }

// ------------------------------------------------------------------ the allocator under the containers
// Tracks block sizes; realloc behaviour is an explored environment answer: mode 0 always
// moves the block, mode 1 shrinks in place (as glibc does) and moves on growth.  The tail of
// a block shrunk in place is poisoned, so ASan still sees any write beyond the new size.
#if defined(__SANITIZE_ADDRESS__)
#include <sanitizer/asan_interface.h>
#define POISON(p, n) ASAN_POISON_MEMORY_REGION(p, n)
#define UNPOISON(p, n) ASAN_UNPOISON_MEMORY_REGION(p, n)
#else
#define POISON(p, n) ((void) 0)
#define UNPOISON(p, n) ((void) 0)
#endif
#include <map>
struct BlkInfo { size_t cur, real; };
static std::map<void *, BlkInfo> g_blk;
static int g_realloc_mode = 0;
extern "C" {
void *ctm_malloc(size_t n) { void *p = malloc(n ? n : 1); memset(p, 0xEE, n ? n : 1); g_blk[p] = BlkInfo{n, n}; return p; }
void *ctm_calloc(size_t n, size_t m) { void *p = ctm_malloc(n * m); memset(p, 0, n * m); return p; }
// hashtab.cpp releases the `new'-ed shell of a temporary table through the allocator's free (see
// DESIGN.md section 8): a block this allocator never handed out goes to free() as the default
// allocator would do; it is counted, not judged.
static long g_foreign_frees;
void ctm_free(void *p) { if (!p) return; auto it = g_blk.find(p); if (it == g_blk.end()) { g_foreign_frees++; free(p); return; } UNPOISON(p, it->second.real); g_blk.erase(it); free(p); }
void *ctm_realloc(void *p, size_t n) {
  if (!p) return ctm_malloc(n);
  auto it = g_blk.find(p);
  if (it == g_blk.end()) { fprintf(stderr, "container reallocated a block it does not own\n"); abort(); }
  if (g_realloc_mode == 1 && n <= it->second.cur) { POISON((char *) p + n, it->second.real - n); it->second.cur = n; return p; }
  void *q = ctm_malloc(n);
  memcpy(q, p, n < it->second.cur ? n : it->second.cur);
  ctm_free(p);
  return q;
}
}
static size_t block_size(const void *p) { auto it = g_blk.find((void *) p); return it == g_blk.end() ? 0 : it->second.cur; }

struct ContOut { Report rep; };

// ------------------------------------------------------------------ hash table
// op encoding: 'f'k find, 'i'k insert (when absent) / re-insert, 'r'k remove (when present), 'e' empty
struct HtModel { std::set<int> s; };

static std::string ht_run(const std::string &hist, int hashfn, int nkeys, std::string *viol, std::string *canon, long *size_out) {
  void *a = ct_alloc_new();
  void *t = ct_ht_create(a, 1, hashfn);
  std::set<int> m;
  std::string err;
  for (size_t i = 0; i + 1 < hist.size() + 1 && i < hist.size(); ) {
    char op = hist[i];
    if (op == 'e') { ct_ht_empty(t); m.clear(); i++; }
    else {
      int k = hist[i + 1] - '0'; i += 2;
      if (op == 'f') { int r = ct_ht_find(t, k); if (r != (int) m.count(k) && err.empty()) err = "find(" + std::to_string(k) + ") returned " + std::to_string(r) + " but the key is " + (m.count(k) ? "" : "not ") + "in the table"; }
      else if (op == 'i') {
        int r = ct_ht_insert(t, k);
        if (m.count(k)) { if (r != 1 && err.empty()) err = "reserving find of present key " + std::to_string(k) + " did not return its entry (status " + std::to_string(r) + ")"; }
        else { if (r != 0 && err.empty()) err = "reserving find of absent key " + std::to_string(k) + (r == 2 ? " returned an entry that is neither EMPTY nor an equal element (holds the DELETED marker or a different key)" : " claims the key is present"); }
        m.insert(k);
      } else if (op == 'r') { ct_ht_remove(t, k); m.erase(k); }
    }
    if ((long) m.size() != ct_ht_count(t) && err.empty()) err = "elements_number = " + std::to_string(ct_ht_count(t)) + " but " + std::to_string(m.size()) + " elements are in the table";
  }
  int lay[4096]; long ne, nd;
  int sz = ct_ht_dump(t, lay, 4096, &ne, &nd);
  std::set<int> present;
  std::string c = std::to_string(sz) + ":" + std::to_string(ne) + ":" + std::to_string(nd) + ":";
  for (int i = 0; i < sz && i < 4096; i++) {
    c += lay[i] == -1 ? '.' : lay[i] == -2 ? 'x' : (char) ('0' + lay[i]);
    if (lay[i] >= 0) { if (!present.insert(lay[i]).second && err.empty()) err = "key " + std::to_string(lay[i]) + " stored twice"; }
  }
  if (present != m && err.empty()) err = "stored keys differ from the inserted-and-not-removed keys";
  (void) nkeys;
  ct_ht_delete(t);
  ct_alloc_del(a);
  *viol = err; *canon = c; *size_out = sz;
  return c;
}

static void explore_ht(int hashfn, int nkeys, int sizecap, long maxstates, Report &rep) {
  std::unordered_set<std::string> seen;
  std::deque<std::string> q;
  std::string v, c; long sz;
  ht_run("", hashfn, nkeys, &v, &c, &sz);
  seen.insert(c); q.push_back("");
  long trans = 0, cut = 0; size_t maxdepth = 0;
  while (!q.empty()) {
    if ((long) seen.size() > maxstates) { rep.add("ht_state_cap_hit"); break; }
    std::string h = q.front(); q.pop_front();
    // model at h (recompute cheaply)
    std::set<int> m;
    for (size_t i = 0; i < h.size();) { if (h[i] == 'e') { m.clear(); i++; } else { int k = h[i + 1] - '0'; if (h[i] == 'i') m.insert(k); else if (h[i] == 'r') m.erase(k); i += 2; } }
    std::vector<std::string> ops;
    ops.push_back("e");
    for (int k = 0; k < nkeys; k++) { ops.push_back(std::string("f") + (char) ('0' + k)); ops.push_back(std::string("i") + (char) ('0' + k)); if (m.count(k)) ops.push_back(std::string("r") + (char) ('0' + k)); }
    for (auto &op : ops) {
      std::string h2 = h + op;
      note_history("ht hashfn=" + std::to_string(hashfn) + " ops=" + h2);
      ht_run(h2, hashfn, nkeys, &v, &c, &sz);
      trans++;
      if (!v.empty()) { rep.viol("{\"property\":\"C19\",\"kind\":\"hash-table\",\"engine\":\"cont\",\"case\":" + jstr("ht hashfn=" + std::to_string(hashfn) + " ops=" + h2) + ",\"grammar\":\"\",\"detail\":" + jstr(std::string(ct_binding()) + " hash table: " + v + " after " + h2 + " (layout " + c + ")") + "}"); if (rep.violations.size() > 20) goto done; continue; }
      if (seen.insert(c).second) {
        if (sz > sizecap) { cut++; continue; }
        q.push_back(h2); if (h2.size() > maxdepth) maxdepth = h2.size();
      }
    }
  }
done:
  rep.add("ht_states", (long) seen.size()); rep.add("ht_transitions", trans); rep.add("ht_states_cut_at_size_cap", cut); rep.add("states", (long) seen.size()); rep.add("transitions", trans);
  if ((long) maxdepth > rep.counters["ht_max_history_bytes"]) rep.counters["ht_max_history_bytes"] = (long) maxdepth;
  if (rep.samples.size() < 2) rep.sample("{\"container\":\"hash table\",\"hashfn\":" + std::to_string(hashfn) + ",\"keys\":" + std::to_string(nkeys) + ",\"states\":" + std::to_string(seen.size()) + ",\"example_history\":" + jstr(q.empty() ? "" : q.back()) + "}");
}

// ------------------------------------------------------------------ object stack / VLO
// ops: b add_byte, m<len> add_memory, x<len> expand, s<n> shorten, g add_string, F finish, N nullify, E empty, T tailor(vlo)
struct ByteModel { std::vector<int> top; std::vector<std::pair<const unsigned char *, std::vector<int>>> fin; };  // -1 = undefined byte

static const int MEMLENS[] = {1, 3, 8, 40};
static unsigned char g_pat[64];

static std::string os_run(const std::string &hist, int seglen, std::string *viol, std::string *canon) {
  void *a = ct_alloc_new();
  void *o = ct_os_create(a, seglen);
  ByteModel m; std::string err; int ctr = 1;
  auto check_all = [&]() {
    if (ct_os_top_length(o) != (long) m.top.size() && err.empty()) err = "top_length = " + std::to_string(ct_os_top_length(o)) + " but " + std::to_string(m.top.size()) + " bytes were appended";
    const unsigned char *p = (const unsigned char *) ct_os_top_begin(o);
    if (err.empty()) for (size_t i = 0; i < m.top.size(); i++) if (m.top[i] >= 0 && p[i] != m.top[i]) { err = "top object byte " + std::to_string(i) + " is " + std::to_string(p[i]) + ", appended " + std::to_string(m.top[i]); break; }
    if (err.empty()) for (size_t f = 0; f < m.fin.size(); f++) for (size_t i = 0; i < m.fin[f].second.size(); i++)
      if (m.fin[f].second[i] >= 0 && m.fin[f].first[i] != m.fin[f].second[i]) { err = "finished object " + std::to_string(f) + " changed at byte " + std::to_string(i); f = m.fin.size() - 1; break; }
  };
  for (size_t i = 0; i < hist.size(); i++) {
    char op = hist[i];
    switch (op) {
    case 'b': ct_os_add_byte(o, ctr % 251); m.top.push_back(ctr % 251); ctr++; break;
    case 'm': { int len = MEMLENS[hist[++i] - '0']; for (int k = 0; k < len; k++) { g_pat[k] = (unsigned char) ((ctr + k) % 251); m.top.push_back(g_pat[k]); } ct_os_add_memory(o, g_pat, len); ctr += len; break; }
    case 'x': { int len = MEMLENS[hist[++i] - '0']; ct_os_expand(o, len); for (int k = 0; k < len; k++) m.top.push_back(-1); break; }
    case 's': { int n = hist[++i] == '0' ? 1 : hist[i] == '1' ? 5 : 100000; if ((int) m.top.size() < n) m.top.clear(); else m.top.resize(m.top.size() - n); ct_os_shorten(o, n); break; }
    case 'g': { if (!m.top.empty()) m.top.pop_back(); ct_os_add_string(o, "xy"); m.top.push_back('x'); m.top.push_back('y'); m.top.push_back(0); break; }
    case 'F': { m.fin.push_back({(const unsigned char *) ct_os_top_begin(o), m.top}); m.top.clear(); ct_os_finish(o); break; }
    case 'N': ct_os_nullify(o); m.top.clear(); break;
    case 'E': ct_os_empty(o); m.top.clear(); m.fin.clear(); break;
    }
    check_all();
    if (!err.empty()) break;
  }
  long room, off; int nseg;
  ct_os_shape(o, &room, &off, &nseg);
  int fin_here = 0;  // finished objects still in the current segment do not influence the future; segments do
  *canon = std::to_string(room) + ":" + std::to_string(off) + ":" + std::to_string(std::min(nseg, 3)) + ":" + std::to_string(m.top.size()) + ":" + std::to_string(fin_here);
  ct_os_delete(o); ct_alloc_del(a);
  *viol = err;
  return *canon;
}

static std::string vlo_run(const std::string &hist, int initlen, std::string *viol, std::string *canon) {
  void *a = ct_alloc_new();
  void *v = ct_vlo_create(a, initlen);
  std::vector<int> m; std::string err; int ctr = 1;
  for (size_t i = 0; i < hist.size(); i++) {
    char op = hist[i];
    switch (op) {
    case 'b': ct_vlo_add_byte(v, ctr % 251); m.push_back(ctr % 251); ctr++; break;
    case 'm': { int len = MEMLENS[hist[++i] - '0']; for (int k = 0; k < len; k++) { g_pat[k] = (unsigned char) ((ctr + k) % 251); m.push_back(g_pat[k]); } ct_vlo_add_memory(v, g_pat, len); ctr += len; break; }
    case 'x': { int len = MEMLENS[hist[++i] - '0']; ct_vlo_expand(v, len); for (int k = 0; k < len; k++) m.push_back(-1); break; }
    case 's': { int n = hist[++i] == '0' ? 1 : hist[i] == '1' ? 5 : 100000; if ((int) m.size() < n) m.clear(); else m.resize(m.size() - n); ct_vlo_shorten(v, n); break; }
    case 'g': { if (!m.empty()) m.pop_back(); ct_vlo_add_string(v, "xy"); m.push_back('x'); m.push_back('y'); m.push_back(0); break; }
    case 'N': ct_vlo_nullify(v); m.clear(); break;
    case 'T': ct_vlo_tailor(v); break;
    }
    if (ct_vlo_length(v) != (long) m.size() && err.empty()) err = "length = " + std::to_string(ct_vlo_length(v)) + " but " + std::to_string(m.size()) + " bytes should be held";
    const unsigned char *p = (const unsigned char *) ct_vlo_begin(v);
    if (err.empty()) for (size_t k = 0; k < m.size(); k++) if (m[k] >= 0 && p[k] != m[k]) { err = "byte " + std::to_string(k) + " is " + std::to_string(p[k]) + ", expected " + std::to_string(m[k]); break; }
    if (err.empty() && ct_vlo_capacity(v) < (long) m.size()) err = "recorded capacity below length";
    if (err.empty() && (long) block_size(ct_vlo_begin(v)) < ct_vlo_capacity(v)) err = "the object believes it owns " + std::to_string(ct_vlo_capacity(v)) + " bytes but its block has " + std::to_string(block_size(ct_vlo_begin(v)));
    if (!err.empty()) break;
  }
  *canon = std::to_string(m.size()) + ":" + std::to_string(ct_vlo_capacity(v)) + ":" + std::to_string(block_size(ct_vlo_begin(v)));
  ct_vlo_delete(v); ct_alloc_del(a);
  *viol = err;
  return *canon;
}

// generic BFS over op strings with canonical dedupe, depth bound and a cap on the size component
template <class RunF>
static void explore_bytes(const char *what, const std::vector<std::string> &ops, RunF runf, int maxdepth, long lencap, Report &rep) {
  std::unordered_set<std::string> seen;
  std::deque<std::pair<std::string, int>> q;
  std::string v, c;
  runf("", &v, &c);
  seen.insert(c); q.push_back({"", 0});
  long trans = 0, cut = 0; int deepest = 0; std::string example;
  while (!q.empty()) {
    auto cur = q.front(); q.pop_front();
    if (cur.second >= maxdepth) { cut++; continue; }
    for (auto &op : ops) {
      std::string h2 = cur.first + op;
      note_history(std::string(what) + " ops=" + h2);
      runf(h2, &v, &c);
      trans++;
      if (!v.empty()) { rep.viol("{\"property\":\"C19\",\"kind\":" + jstr(what) + ",\"engine\":\"cont\",\"case\":" + jstr(std::string(what) + " ops=" + h2) + ",\"grammar\":\"\",\"detail\":" + jstr(std::string(ct_binding()) + " " + what + ": " + v + " after " + h2) + "}"); if (rep.violations.size() > 20) goto done; continue; }
      if (seen.insert(c).second) {
        long len = atol(c.c_str());
        (void) len;
        if ((long) h2.size() > lencap * 4) { cut++; continue; }
        q.push_back({h2, cur.second + 1}); if (cur.second + 1 > deepest) { deepest = cur.second + 1; example = h2; }
      }
    }
  }
done:
  rep.add(std::string(what) + "_states", (long) seen.size()); rep.add(std::string(what) + "_transitions", trans); rep.add(std::string(what) + "_frontier_cut_at_depth", cut);
  rep.add("states", (long) seen.size()); rep.add("transitions", trans);
  rep.sample("{\"container\":" + jstr(what) + ",\"depth\":" + std::to_string(deepest) + ",\"states\":" + std::to_string(seen.size()) + ",\"example_history\":" + jstr(example) + "}");
}

int eng_cont_main(int argc, char **argv) {
  Args a(argc, argv, 2);
  std::string what = a.get("what", "ht");
  g_realloc_mode = (int) a.geti("realloc", 0);
  int hashfn = (int) a.geti("hashfn", 0), nkeys = (int) a.geti("keys", 4), sizecap = (int) a.geti("sizecap", 23), depth = (int) a.geti("depth", 8);
  long maxstates = a.geti("maxstates", 3000000);
  std::string out = a.get("out", "/dev/stdout");
  g_shm = (char *) mmap(NULL, 8192, PROT_READ | PROT_WRITE, MAP_SHARED | MAP_ANONYMOUS, -1, 0);
  if (a.has("replay")) {  // one history, verbose, in-process
    std::string h = a.get("replay"), v, c; long sz;
    if (what == "ht") ht_run(h, hashfn, nkeys, &v, &c, &sz);
    else if (what == "os") os_run(h, 16, &v, &c);
    else vlo_run(h, 4, &v, &c);
    printf("%s %s history %s -> state %s %s\n", ct_binding(), what.c_str(), h.c_str(), c.c_str(), v.empty() ? "ok" : ("VIOLATION-DETAIL " + v).c_str());
    return 0;
  }
  Report total;
  auto body = [&](Report &r) {
    if (what == "ht") explore_ht(hashfn, nkeys, sizecap, maxstates, r);
    else if (what == "os") {
      std::vector<std::string> ops{"b", "m0", "m1", "m2", "m3", "x0", "x2", "s0", "s1", "s2", "g", "F", "N", "E"};
      explore_bytes("object-stack", ops, [&](const std::string &h, std::string *v, std::string *c) { os_run(h, 16, v, c); }, depth, 100000, r);
    } else {
      std::vector<std::string> ops{"b", "m0", "m1", "m2", "m3", "x0", "x2", "s0", "s1", "s2", "g", "N", "T"};
      explore_bytes("vlo", ops, [&](const std::string &h, std::string *v, std::string *c) { vlo_run(h, 4, v, c); }, depth, 100000, r);
    }
  };
  ChildRes cr = run_child(body, total, (int) a.geti("timeout", 3000));
  if (!cr.ok) {
    std::string h = g_shm;  // the history that was executing
    // replay twice, alone
    size_t p = h.find("ops=");
    std::string ops = p == std::string::npos ? "" : h.substr(p + 4);
    int fails = 0; ChildRes last = cr;
    for (int k = 0; k < 2; k++) {
      Report tmp;
      ChildRes c2 = run_child([&](Report &) { std::string v, c; long sz; if (what == "ht") ht_run(ops, hashfn, nkeys, &v, &c, &sz); else if (what == "os") os_run(ops, 16, &v, &c); else vlo_run(ops, 4, &v, &c); }, tmp, 60);
      if (!c2.ok) { fails++; last = c2; }
    }
    if (fails == 0) machinery_error("container exploration died (" + child_failure_text(cr) + ") but its last history replays cleanly: " + h + " stderr: " + cr.err_tail);
    if (fails == 1) machinery_error("nondeterministic replay of " + h);
    total.viol("{\"property\":\"C19\",\"kind\":\"crash\",\"engine\":\"cont\",\"case\":" + jstr(h) + ",\"grammar\":\"\",\"detail\":" + jstr(std::string(ct_binding()) + " " + what + ": " + child_failure_text(last) + "; stderr: " + last.err_tail.substr(0, 1500)) + "}");
    total.add("states", 1); total.add("transitions", 1);
  }
  total.write_json(out);
  return 0;
}
