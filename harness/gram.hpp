// Grammar representation shared by the reference model and the yaep driver,
// bounded grammar families GF(T,N,R,L,B) and printing (callback form, description text).
#pragma once
#include <string>
#include <vector>
#include <algorithm>
#include <cstdio>
#include <cstdint>
#include <climits>

static const int NILTR = INT_MAX;  // == YAEP_NIL_TRANSLATION_NUMBER

struct Rule {
  int lhs = 0;                 // nonterminal index (0 = first nonterminal)
  std::vector<int> rhs;        // symbol ids (see Gram)
  bool anode = false;
  std::string aname;
  int cost = 0;
  bool has_transl = false;     // transl == NULL vs given
  std::vector<int> transl;     // rhs indexes or NILTR
};

// Symbol ids: 0..T-1 terminals, T = `error', T+1+k = nonterminal k.
struct Gram {
  std::vector<std::pair<std::string, int>> terms;  // name, code
  std::vector<std::string> nts;                    // nonterminal names
  std::vector<Rule> rules;                         // start symbol = rules[0].lhs
  int T() const { return (int) terms.size(); }
  int ERR() const { return T(); }
  int NT(int k) const { return T() + 1 + k; }
  bool is_term(int s) const { return s <= T(); }   // including error
  int nt_index(int s) const { return s - T() - 1; }
  std::string sym_name(int s) const {
    if (s < T()) return terms[s].first;
    if (s == T()) return "error";
    return nts[s - T() - 1];
  }
  bool uses_error() const {
    for (auto &r : rules) for (int s : r.rhs) if (s == ERR()) return true;
    return false;
  }
  int start() const { return rules.empty() ? 0 : rules[0].lhs; }
};

// Human-readable one-line form, also used as case id in replay files.
static inline std::string gram_to_string(const Gram &g) {
  std::string s;
  for (size_t i = 0; i < g.rules.size(); i++) {
    const Rule &r = g.rules[i];
    if (i) s += " ; ";
    s += g.nts[r.lhs] + " :";
    for (int x : r.rhs) s += " " + g.sym_name(x);
    if (r.anode || r.has_transl) {
      s += " #";
      if (r.anode) {
        s += " " + r.aname + " " + std::to_string(r.cost) + " (";
        for (int t : r.transl) s += (t == NILTR ? std::string(" -") : " " + std::to_string(t));
        s += " )";
      } else {
        for (int t : r.transl) s += (t == NILTR ? std::string(" -") : " " + std::to_string(t));
      }
    }
  }
  return s;
}

// Description text in the documented syntax (terminals must have identifier names or
// be single characters printed as 'c' when name is "'c'").
static inline std::string gram_to_text(const Gram &g, bool explicit_codes = true) {
  std::string s = "TERM";
  for (auto &t : g.terms) {
    if (t.first.size() == 3 && t.first[0] == '\'') continue;
    s += " " + t.first;
    if (explicit_codes) s += " = " + std::to_string(t.second);
  }
  s += ";\n";
  for (auto &r : g.rules) {
    s += g.nts[r.lhs] + " :";
    for (int x : r.rhs) s += " " + g.sym_name(x);
    if (r.anode) {
      s += " # " + r.aname + " " + std::to_string(r.cost) + " (";
      for (int t : r.transl) s += (t == NILTR ? std::string(" -") : " " + std::to_string(t));
      s += " )";
    } else if (r.has_transl) {
      s += " #";
      for (int t : r.transl) s += (t == NILTR ? std::string(" -") : " " + std::to_string(t));
    }
    s += " ;\n";
  }
  return s;
}

// ---------------------------------------------------------------------------------
// Bounded families.  A "skeleton" is a grammar without translations: a set of rules
// (lhs, rhs) over T terminals (+ optionally `error') and <= N nonterminals, at most R
// rules, |rhs| <= L, sum(1+|rhs|) <= B.  Nonterminal 0 is the start symbol and has at
// least one rule.  Only the canonical representative of each class under renaming of
// terminals and of non-start nonterminals is produced (minimal encoding).
struct FamilySpec { int T, N, R, L, B; bool err; };

struct SkelRule { int lhs; std::vector<int> rhs; };  // rhs symbols: 0..T-1 term, T err, T+1+k nt
typedef std::vector<SkelRule> Skel;

static inline bool skelrule_less(const SkelRule &a, const SkelRule &b) {
  if (a.lhs != b.lhs) return a.lhs < b.lhs;
  if (a.rhs.size() != b.rhs.size()) return a.rhs.size() < b.rhs.size();
  return a.rhs < b.rhs;
}
static inline bool skelrule_eq(const SkelRule &a, const SkelRule &b) {
  return a.lhs == b.lhs && a.rhs == b.rhs;
}

struct Family {
  FamilySpec sp;
  std::vector<SkelRule> universe;
  std::vector<Skel> skels;   // canonical ones

  static std::vector<int> encode(const Skel &s) {
    std::vector<int> e;
    for (auto &r : s) { e.push_back(r.lhs); e.push_back((int) r.rhs.size()); for (int x : r.rhs) e.push_back(x); }
    return e;
  }
  Skel renamed(const Skel &s, const std::vector<int> &tp, const std::vector<int> &np) const {
    Skel o;
    for (auto &r : s) {
      SkelRule q; q.lhs = np[r.lhs];
      for (int x : r.rhs) {
        if (x < sp.T) q.rhs.push_back(tp[x]);
        else if (x == sp.T) q.rhs.push_back(x);
        else q.rhs.push_back(sp.T + 1 + np[x - sp.T - 1]);
      }
      o.push_back(q);
    }
    std::sort(o.begin(), o.end(), skelrule_less);
    return o;
  }
  bool canonical(const Skel &s) const {
    // symbols used must be a prefix of the numbering (no gaps), and s minimal under renaming
    std::vector<int> tu(sp.T, 0), nu(sp.N, 0);
    for (auto &r : s) { nu[r.lhs] = 1; for (int x : r.rhs) { if (x < sp.T) tu[x] = 1; else if (x > sp.T) nu[x - sp.T - 1] = 1; } }
    for (int i = 1; i < sp.T; i++) if (tu[i] && !tu[i - 1]) return false;
    for (int i = 1; i < sp.N; i++) if (nu[i] && !nu[i - 1]) return false;
    std::vector<int> e0 = encode(s);
    std::vector<int> tp(sp.T), np(sp.N);
    for (int i = 0; i < sp.T; i++) tp[i] = i;
    do {
      for (int i = 0; i < sp.N; i++) np[i] = i;
      do {
        if (np[0] != 0) continue;
        Skel o = renamed(s, tp, np);
        if (encode(o) < e0) return false;
      } while (std::next_permutation(np.begin(), np.end()));
    } while (std::next_permutation(tp.begin(), tp.end()));
    return true;
  }
  void rec(size_t from, Skel &cur, int size) {
    if (!cur.empty() && cur[0].lhs == 0 && canonical(cur)) skels.push_back(cur);
    if ((int) cur.size() == sp.R) return;
    for (size_t i = from; i < universe.size(); i++) {
      int sz = 1 + (int) universe[i].rhs.size();
      if (size + sz > sp.B) continue;
      if (cur.empty() && universe[i].lhs != 0) break;
      cur.push_back(universe[i]);
      rec(i + 1, cur, size + sz);
      cur.pop_back();
    }
  }
  explicit Family(FamilySpec s) : sp(s) {
    int nsym = sp.T + 1 + sp.N;
    for (int lhs = 0; lhs < sp.N; lhs++) {
      for (int len = 0; len <= sp.L; len++) {
        std::vector<int> rhs(len, 0);
        for (;;) {
          bool ok = true;
          for (int x : rhs) { if (x == sp.T && !sp.err) ok = false; }
          if (ok) universe.push_back(SkelRule{lhs, rhs});
          int k = len - 1;
          while (k >= 0 && ++rhs[k] == nsym) { rhs[k] = 0; k--; }
          if (k < 0) break;
        }
      }
    }
    std::sort(universe.begin(), universe.end(), skelrule_less);
    Skel cur;
    rec(0, cur, 0);
  }
};

// Translation menu for one rule (index m in [0, menu_size(rule))).
//  0: abstract node r<k>, all symbols in order, cost c
//  1: no `#' at all (transl NULL)                       -> NIL
//  2: `# -' (no anode, [NIL])                           -> NIL
//  3: abstract node, symbols reversed
//  4: abstract node, only last symbol (or () when rhs empty)
//  5: abstract node (first, -)  (or (-) when rhs empty)
//  6: abstract node with ()
//  7+k: `# k' pass-through of symbol k (k < |rhs|)
static inline int menu_size(const SkelRule &r) { return 7 + (int) r.rhs.size(); }

static inline void apply_menu(Rule &r, int m, int ruleno, int cost) {
  int n = (int) r.rhs.size();
  r.anode = false; r.aname.clear(); r.cost = 0; r.has_transl = false; r.transl.clear();
  auto an = [&]() { r.anode = true; r.aname = "r" + std::to_string(ruleno); r.cost = cost; r.has_transl = true; };
  switch (m) {
  case 0: an(); for (int i = 0; i < n; i++) r.transl.push_back(i); break;
  case 1: break;
  case 2: r.has_transl = true; r.transl.push_back(NILTR); break;
  case 3: an(); for (int i = n - 1; i >= 0; i--) r.transl.push_back(i); break;
  case 4: an(); if (n) r.transl.push_back(n - 1); break;
  case 5: an(); if (n) r.transl.push_back(0); r.transl.push_back(NILTR); break;
  case 6: an(); break;
  default: r.has_transl = true; r.transl.push_back(m - 7); break;
  }
}

static inline Gram skel_to_gram(const Skel &s, const FamilySpec &sp, const std::vector<int> &codes) {
  Gram g;
  static const char *tn[] = {"a", "b", "c", "d"};
  static const char *nn[] = {"S", "A", "B", "C"};
  for (int i = 0; i < sp.T; i++) g.terms.push_back({tn[i], codes[i]});
  for (int i = 0; i < sp.N; i++) g.nts.push_back(nn[i]);
  for (auto &r : s) { Rule q; q.lhs = r.lhs; q.rhs = r.rhs; g.rules.push_back(q); }
  return g;
}
