#include <cstdio>
int eng_cont_main(int argc, char **argv);
int main(int argc, char **argv) { if (argc < 2) { fprintf(stderr, "usage: vh cont --what ht|os|vlo ...\n"); return 2; } return eng_cont_main(argc, argv); }
