// Driving the real library through the binding layer and turning what it does into
// canonical observations: return code, syntax_error calls, ambiguity flag, the returned
// node graph (shape checks) and Den(root), the set of trees it denotes; plus a tracking
// parse_alloc/parse_free pair for the ownership property.
#pragma once
#include "bind.h"
#include "gram.hpp"
#include "yaep.h"
#include <map>
#include <set>
#include <string>
#include <vector>
#include <cstdlib>
#include <cstring>
#include <cstdint>

// ---------------------------------------------------------------- grammar definition
// Definition inputs live in exactly-sized heap blocks that are freed right after the
// defining call (C13: "definitions are copied"; under ASan any later read is reported).
struct DefCtx {
  const Gram *g = nullptr;
  size_t ti = 0, ri = 0;
  std::vector<void *> blocks;
  char *dup(const std::string &s) { char *p = (char *) malloc(s.size() + 1); memcpy(p, s.c_str(), s.size() + 1); blocks.push_back(p); return p; }
  void release() { for (void *p : blocks) { free(p); } blocks.clear(); }
};
inline DefCtx g_def;

static const char *cb_read_terminal(int *code) {
  if (g_def.ti >= g_def.g->terms.size()) return NULL;
  auto &t = g_def.g->terms[g_def.ti++];
  *code = t.second;
  return g_def.dup(t.first);
}
static const char *cb_read_rule(const char ***rhs, const char **anode, int *cost, int **transl) {
  if (g_def.ri >= g_def.g->rules.size()) return NULL;
  const Rule &r = g_def.g->rules[g_def.ri++];
  const char **a = (const char **) malloc(sizeof(char *) * (r.rhs.size() + 1));
  g_def.blocks.push_back(a);
  for (size_t i = 0; i < r.rhs.size(); i++) a[i] = g_def.dup(g_def.g->sym_name(r.rhs[i]));
  a[r.rhs.size()] = NULL;
  *rhs = a;
  *anode = r.anode ? g_def.dup(r.aname) : NULL;
  *cost = r.cost;
  if (r.has_transl) {
    int *t = (int *) malloc(sizeof(int) * (r.transl.size() + 1));
    g_def.blocks.push_back(t);
    for (size_t i = 0; i < r.transl.size(); i++) t[i] = r.transl[i];
    t[r.transl.size()] = -1;
    *transl = t;
  } else *transl = NULL;
  return g_def.dup(g_def.g->nts[r.lhs]);
}
static inline int define_by_callbacks(void *y, const Gram &g, int strict) {
  g_def.g = &g; g_def.ti = g_def.ri = 0;
  int rc = vy_read_grammar(y, strict, cb_read_terminal, cb_read_rule);
  // overwrite before freeing: a library that kept a pointer would show garbage even without ASan
  for (void *p : g_def.blocks) { (void) p; }
  g_def.release();
  return rc;
}
static inline int define_by_text(void *y, const std::string &text, int strict) {
  char *p = (char *) malloc(text.size() + 1);
  memcpy(p, text.c_str(), text.size() + 1);
  int rc = vy_parse_grammar(y, strict, p);
  memset(p, 'Z', text.size());
  free(p);
  return rc;
}

// ---------------------------------------------------------------- tracking allocator
struct Blk { void *p; int size; int epoch; int state; /*1 live, 2 freed by yaep during parse, 3 freed by free_tree*/ };
struct Tracker {
  std::map<void *, size_t> idx;     // block start -> index in blks
  std::vector<Blk> blks;
  int epoch = 0;
  bool in_parse = false;
  long n_alloc = 0, n_free = 0, n_free_null = 0;
  std::vector<std::string> errors;  // ownership violations
  void reset() { for (auto &b : blks) if (b.state == 1 || b.state == 2 || b.state == 3) { free(b.p); } blks.clear(); idx.clear(); errors.clear(); n_alloc = n_free = n_free_null = 0; }
  int live() const { int k = 0; for (auto &b : blks) if (b.state == 1) k++; return k; }
  int live_epoch(int e) const { int k = 0; for (auto &b : blks) if (b.state == 1 && b.epoch == e) k++; return k; }
  // is [p, p+len) inside one live block?
  bool inside_live(const void *p, size_t len) const {
    auto it = idx.upper_bound((void *) p);
    if (it == idx.begin()) return false;
    --it;
    const Blk &b = blks[it->second];
    return b.state == 1 && (const char *) p >= (const char *) b.p && (const char *) p + len <= (const char *) b.p + b.size;
  }
  bool is_live_start(const void *p) const { auto it = idx.find((void *) p); return it != idx.end() && blks[it->second].state == 1; }
};
inline Tracker g_trk;
// Freed blocks are not returned to malloc until reset(): addresses stay unique per case,
// so "freed twice" and "reachable but freed" are decidable exactly.
static void *trk_alloc(int n) {
  void *p = malloc(n > 0 ? n : 1);
  memset(p, 0xA5, n > 0 ? n : 1);
  g_trk.idx[p] = g_trk.blks.size();
  g_trk.blks.push_back(Blk{p, n, g_trk.epoch, 1});
  g_trk.n_alloc++;
  return p;
}
static void trk_free(void *p) {
  if (p == NULL) { g_trk.n_free_null++; return; }
  g_trk.n_free++;
  auto it = g_trk.idx.find(p);
  if (it == g_trk.idx.end()) { g_trk.errors.push_back("parse_free of a pointer never returned by parse_alloc"); return; }
  Blk &b = g_trk.blks[it->second];
  if (b.state != 1) { g_trk.errors.push_back("parse_free of an already freed block"); return; }
  if (g_trk.in_parse && b.epoch != g_trk.epoch) { g_trk.errors.push_back("parse_free during yaep_parse of a block from another parse"); return; }
  memset(b.p, 0xDD, b.size);
  b.state = g_trk.in_parse ? 2 : 3;
}

// ---------------------------------------------------------------- parse run
struct SynErr { int err, ign, rec; long err_a, ign_a, rec_a; };  // attrs as token index, -1 NULL, -2 foreign
struct Flags { int la = 1, one = 1, cost = 0, rec = 1, match = 3, debug = 0; };

static const uintptr_t ATTR_BASE = 0x10000;
struct TokCtx { const std::vector<int> *codes; size_t i; };
inline TokCtx g_tok;
inline std::vector<SynErr> g_synerrs;
static int cb_read_token(void **attr) {
  if (g_tok.i >= g_tok.codes->size()) { *attr = NULL; return -1; }
  *attr = (void *) (ATTR_BASE + g_tok.i);
  return (*g_tok.codes)[g_tok.i++];
}
static long attr_to_idx(void *a, int ntoks) {
  if (a == NULL) return -1;
  uintptr_t v = (uintptr_t) a;
  if (v >= ATTR_BASE && v < ATTR_BASE + (uintptr_t) ntoks) return (long) (v - ATTR_BASE);
  return -2;
}
inline int g_ntoks_for_cb;
static void cb_syntax_error(int e, void *ea, int i, void *ia, int r, void *ra) {
  g_synerrs.push_back(SynErr{e, i, r, attr_to_idx(ea, g_ntoks_for_cb), attr_to_idx(ia, g_ntoks_for_cb), attr_to_idx(ra, g_ntoks_for_cb)});
}

static inline void apply_flags(void *y, const Flags &f) {
  vy_set_lookahead_level(y, f.la);
  vy_set_one_parse_flag(y, f.one);
  vy_set_cost_flag(y, f.cost);
  vy_set_error_recovery_flag(y, f.rec);
  vy_set_recovery_match(y, f.match);
  vy_set_debug_level(y, f.debug);
}

struct ParseObs {
  int rc = 0;
  int amb = 0;
  struct yaep_tree_node *root = nullptr;
  std::vector<SynErr> errs;
};

// alloc_mode: 0 tracking alloc+free, 1 tracking alloc with NULL free, 2 default (NULL, NULL)
static inline ParseObs run_parse(void *y, const std::vector<int> &codes, int alloc_mode = 0) {
  ParseObs o;
  g_tok.codes = &codes; g_tok.i = 0;
  g_synerrs.clear();
  g_ntoks_for_cb = (int) codes.size();
  g_trk.epoch++;
  g_trk.in_parse = true;
  o.root = (struct yaep_tree_node *) (uintptr_t) 0x1;  // must be overwritten
  o.amb = -99;
  o.rc = vy_parse(y, cb_read_token, cb_syntax_error, alloc_mode == 2 ? NULL : trk_alloc,
                  alloc_mode == 0 ? trk_free : NULL, &o.root, &o.amb);
  g_trk.in_parse = false;
  o.errs = g_synerrs;
  return o;
}

// ---------------------------------------------------------------- Den(root) and shape
struct DenRes {
  std::set<std::string> trees;     // canonical strings with the cost field as found
  bool capped = false;
  std::vector<std::string> shape;  // shape violations (cycle, ALT in ALT, multiple NIL, ...)
  int n_alt = 0, n_anode = 0, n_term = 0;
  bool nil_seen = false, err_seen = false;
  int shared_anodes = 0;           // anodes reached through more than one parent
};

struct DenCtx {
  DenRes &r;
  int ntoks;
  bool tracked;                     // check that nodes lie in live tracked blocks
  std::map<const yaep_tree_node *, std::vector<std::string>> memo;
  std::map<const yaep_tree_node *, int> color;  // 1 on path, 2 done
  const yaep_tree_node *nil_node = nullptr, *err_node = nullptr;
  std::map<const yaep_tree_node *, int> visits;
  size_t cap;
  // cost-field invariant (C04): filled when check_costs
  bool cost_on = false;
  std::map<const yaep_tree_node *, long> totcost;   // total cost of subtree as per fields (ALT: common)
  DenCtx(DenRes &r_, int n, bool t, size_t cap_ = 20000) : r(r_), ntoks(n), tracked(t), cap(cap_) {}

  void shape(const std::string &s) { if (r.shape.size() < 20) r.shape.push_back(s); }

  const std::vector<std::string> &den(const yaep_tree_node *nd) {
    static const std::vector<std::string> none;
    if (nd == NULL) { shape("NULL node reference"); return none; }
    auto it = memo.find(nd);
    if (it != memo.end()) { visits[nd]++; return it->second; }
    if (color[nd] == 1) { shape("cycle in the returned graph"); return none; }
    color[nd] = 1;
    if (tracked && !g_trk.is_live_start(nd)) { shape("node is not the start of a live parse_alloc block"); color[nd] = 2; return memo[nd] = none; }
    std::vector<std::string> out;
    switch (nd->type) {
    case YAEP_NIL:
      if (nil_node && nil_node != nd) shape("more than one NIL node");
      nil_node = nd; r.nil_seen = true;
      out.push_back("N");
      break;
    case YAEP_ERROR:
      if (err_node && err_node != nd) shape("more than one ERROR node");
      err_node = nd; r.err_seen = true;
      out.push_back("E");
      break;
    case YAEP_TERM: {
      r.n_term++;
      long ix = attr_to_idx(nd->val.term.attr, ntoks);
      out.push_back("T(" + std::to_string(nd->val.term.code) + "@" + (ix == -1 ? std::string("NULL") : ix == -2 ? std::string("?") : std::to_string(ix)) + ")");
      break;
    }
    case YAEP_ANODE: {
      r.n_anode++;
      const char *nm = nd->val.anode.name;
      if (nm == NULL) { shape("abstract node with NULL name"); break; }
      if (tracked && !g_trk.inside_live(nm, 1)) { shape("abstract node name outside live parse_alloc blocks"); break; }
      size_t nl = strnlen(nm, 4096);
      if (tracked && !g_trk.inside_live(nm, nl + 1)) { shape("abstract node name not NUL-terminated inside its block"); break; }
      yaep_tree_node **ch = nd->val.anode.children;
      if (ch == NULL) { shape("abstract node with NULL children array"); break; }
      std::vector<std::string> cur{""};
      int k = 0;
      for (;; k++) {
        if (tracked && !g_trk.inside_live(&ch[k], sizeof(ch[k]))) { shape("children array runs out of its parse_alloc block (no NULL terminator)"); cur.clear(); break; }
        if (ch[k] == NULL) break;
        if (k > 64) { shape("children array longer than 64"); cur.clear(); break; }
        const std::vector<std::string> &d = den(ch[k]);
        std::vector<std::string> nxt;
        for (auto &a : cur) for (auto &b : d) { if (nxt.size() >= cap) { r.capped = true; break; } nxt.push_back(a + (k ? "," : "") + b); }
        cur.swap(nxt);
      }
      for (auto &a : cur) out.push_back("A(" + std::string(nm, nl) + ":" + std::to_string(nd->val.anode.cost) + ";" + a + ")");
      break;
    }
    case YAEP_ALT: {
      std::set<std::string> acc;
      for (const yaep_tree_node *a = nd; a != NULL; a = a->val.alt.next) {
        if (a != nd) {
          if (tracked && !g_trk.is_live_start(a)) { shape("ALT node is not the start of a live parse_alloc block"); break; }
          if (color[a] == 1) { shape("cycle in an ALT chain"); break; }
          color[a] = 1;
        }
        if (a->type != YAEP_ALT) { shape("ALT chain continues with a non-ALT node"); break; }
        r.n_alt++;
        const yaep_tree_node *x = a->val.alt.node;
        if (x == NULL) { shape("ALT with NULL alternative"); continue; }
        if (x->type == YAEP_ALT) { shape("ALT node whose alternative is an ALT node"); continue; }
        for (auto &s : den(x)) { if (acc.size() >= cap) { r.capped = true; break; } acc.insert(s); }
      }
      for (const yaep_tree_node *a = nd->val.alt.next; a != NULL && a->type == YAEP_ALT && color[a] == 1; a = a->val.alt.next) color[a] = 2;
      out.assign(acc.begin(), acc.end());
      break;
    }
    default:
      shape("node with invalid type " + std::to_string((int) nd->type));
    }
    color[nd] = 2;
    visits[nd] = 1;
    return memo[nd] = out;
  }
};

static inline DenRes denote(const yaep_tree_node *root, int ntoks, bool tracked) {
  DenRes r;
  DenCtx c(r, ntoks, tracked);
  const std::vector<std::string> &d = c.den(root);
  for (auto &s : d) r.trees.insert(s);
  for (auto &kv : c.visits) if (kv.second > 1 && kv.first->type == YAEP_ANODE) r.shared_anodes++;
  return r;
}

// Cost-field check (C04): returns "" if every abstract node's cost field equals its own
// rule cost plus the cost of its children subtrees; an ALT's cost is the common cost of
// its alternatives.  own_cost maps anode name -> rule cost (names are unique per rule in
// the harness' grammars).  Writes the root total into *tot.
struct CostCk {
  const std::map<std::string, int> &own;
  std::map<const yaep_tree_node *, long> memo;
  std::string err;
  explicit CostCk(const std::map<std::string, int> &o) : own(o) {}
  long tot(const yaep_tree_node *nd) {
    if (nd == NULL) return 0;
    auto it = memo.find(nd);
    if (it != memo.end()) return it->second;
    memo[nd] = 0;
    long v = 0;
    switch (nd->type) {
    case YAEP_ANODE: {
      long s = 0;
      for (yaep_tree_node **c = nd->val.anode.children; *c; c++) s += tot(*c);
      auto o = own.find(nd->val.anode.name);
      long oc = o == own.end() ? 0 : o->second;
      if (nd->val.anode.cost != oc + s && err.empty())
        err = std::string("abstract node ") + nd->val.anode.name + " has cost field " + std::to_string(nd->val.anode.cost) + " but own cost " + std::to_string(oc) + " + children " + std::to_string(s);
      v = nd->val.anode.cost;
      break;
    }
    case YAEP_ALT: {
      bool first = true;
      for (const yaep_tree_node *a = nd; a && a->type == YAEP_ALT; a = a->val.alt.next) {
        long c = tot(a->val.alt.node);
        if (first) { v = c; first = false; }
        else if (c != v && err.empty()) err = "alternatives of one ALT chain have different costs " + std::to_string(v) + " and " + std::to_string(c);
      }
      break;
    }
    default: v = 0;
    }
    return memo[nd] = v;
  }
};
