// Engine plumbing: counters, violation/sample records, crash-contained batch execution
// (fork per batch, watchdog, bisection to the single failing case, replay-before-report),
// JSON output for the driver.
#pragma once
#include <map>
#include <string>
#include <vector>
#include <functional>
#include <cstdio>
#include <cstdlib>
#include <cstring>
#include <unistd.h>
#include <signal.h>
#include <sys/wait.h>
#include <sys/time.h>
#include <sys/resource.h>
#include <time.h>
#include <errno.h>
#include <sys/select.h>

static inline std::string jesc(const std::string &s) {
  std::string o;
  for (unsigned char c : s) {
    if (c == '"') o += "\\\""; else if (c == '\\') o += "\\\\"; else if (c == '\n') o += "\\n";
    else if (c == '\t') o += "\\t"; else if (c == '\r') o += "\\r";
    else if (c < 0x20 || c >= 0x7f) { char b[8]; snprintf(b, sizeof b, "\\u%04x", c); o += b; }
    else o += (char) c;
  }
  return o;
}
static inline std::string jstr(const std::string &s) { return "\"" + jesc(s) + "\""; }
static inline std::string jints(const std::vector<int> &v) { std::string s = "["; for (size_t i = 0; i < v.size(); i++) { if (i) s += ","; s += std::to_string(v[i]); } return s + "]"; }

static inline double now_s() { struct timespec ts; clock_gettime(CLOCK_MONOTONIC, &ts); return ts.tv_sec + ts.tv_nsec * 1e-9; }

// One record = one line "<kind>\t<payload>\n" ; kinds: C counter add "name value", V violation json,
// K known-finding json, S sample json, H histogram key.
struct Report {
  std::map<std::string, long> counters;
  std::vector<std::string> violations, known, samples;
  size_t max_viol = getenv("VERIF_MAXVIOL") ? atol(getenv("VERIF_MAXVIOL")) : 200, max_samples = 12;
  void add(const std::string &k, long v = 1) { counters[k] += v; }
  void viol(const std::string &json) { counters["violations"]++; if (violations.size() < max_viol) violations.push_back(json); }
  void knownf(const std::string &json) { counters["known_matched"]++; if (known.size() < max_viol) known.push_back(json); }
  void sample(const std::string &json) { if (samples.size() < max_samples) samples.push_back(json); }
  void merge_line(const char *line) {
    if (line[0] == 'C') { char name[256]; long v; if (sscanf(line + 2, "%255s %ld", name, &v) == 2) counters[name] += v; }
    else if (line[0] == 'V') { counters["violations"]++; if (violations.size() < max_viol) violations.push_back(line + 2); }
    else if (line[0] == 'K') { counters["known_matched"]++; if (known.size() < max_viol) known.push_back(line + 2); }
    else if (line[0] == 'S') { if (samples.size() < max_samples) samples.push_back(line + 2); }
  }
  void dump(FILE *f) const {   // line protocol (child -> parent)
    for (auto &kv : counters) if (kv.first != "violations" && kv.first != "known_matched") fprintf(f, "C %s %ld\n", kv.first.c_str(), kv.second);
    for (auto &s : violations) fprintf(f, "V %s\n", s.c_str());
    for (auto &s : known) fprintf(f, "K %s\n", s.c_str());
    for (auto &s : samples) fprintf(f, "S %s\n", s.c_str());
  }
  void write_json(const std::string &path, const std::string &extra = "") const {
    FILE *f = fopen(path.c_str(), "w");
    if (!f) { perror(path.c_str()); exit(2); }
    fprintf(f, "{\n \"counters\": {");
    bool first = true;
    for (auto &kv : counters) { fprintf(f, "%s\n  %s: %ld", first ? "" : ",", jstr(kv.first).c_str(), kv.second); first = false; }
    fprintf(f, "\n },\n \"violations\": [");
    for (size_t i = 0; i < violations.size(); i++) fprintf(f, "%s\n  %s", i ? "," : "", violations[i].c_str());
    fprintf(f, "\n ],\n \"known\": [");
    for (size_t i = 0; i < known.size(); i++) fprintf(f, "%s\n  %s", i ? "," : "", known[i].c_str());
    fprintf(f, "\n ],\n \"samples\": [");
    for (size_t i = 0; i < samples.size(); i++) fprintf(f, "%s\n  %s", i ? "," : "", samples[i].c_str());
    fprintf(f, "\n ]%s\n}\n", extra.c_str());
    fclose(f);
  }
};

// Result of running one batch in a child.
struct ChildRes { bool ok; int sig; int exitcode; bool timeout; std::string err_tail; };

// Runs fn(report) in a forked child with a watchdog; on clean exit merges the child's
// report into `into'.  stderr of the child is captured (tail kept) so that sanitizer
// reports can be attached to the violation.
static inline ChildRes run_child(const std::function<void(Report &)> &fn, Report &into, int timeout_s) {
  int pfd[2], efd[2];
  if (pipe(pfd) || pipe(efd)) { perror("pipe"); exit(2); }
  fflush(stdout); fflush(stderr);
  pid_t pid = fork();
  if (pid < 0) { perror("fork"); exit(2); }
  if (pid == 0) {
    close(pfd[0]); close(efd[0]);
    dup2(efd[1], 2); close(efd[1]);
    alarm(timeout_s);
#if !defined(__SANITIZE_ADDRESS__)
    { struct rlimit rl; rl.rlim_cur = rl.rlim_max = (rlim_t) 6 << 30; setrlimit(RLIMIT_AS, &rl); }   // a runaway case must not take the machine down
#endif
    Report r;
    fn(r);
    FILE *f = fdopen(pfd[1], "w");
    r.dump(f);
    fprintf(f, "END\n");
    fflush(f);
    _exit(0);
  }
  close(pfd[1]); close(efd[1]);
  // read both pipes until EOF (child output is small; stderr bounded by us keeping only a tail)
  std::string out, err;
  char buf[65536];
  fd_set fds;
  bool o_open = true, e_open = true;
  while (o_open || e_open) {
    FD_ZERO(&fds);
    int mx = 0;
    if (o_open) { FD_SET(pfd[0], &fds); mx = pfd[0]; }
    if (e_open) { FD_SET(efd[0], &fds); if (efd[0] > mx) mx = efd[0]; }
    if (select(mx + 1, &fds, NULL, NULL, NULL) < 0) { if (errno == EINTR) continue; break; }
    if (o_open && FD_ISSET(pfd[0], &fds)) { ssize_t k = read(pfd[0], buf, sizeof buf); if (k <= 0) o_open = false; else out.append(buf, k); }
    if (e_open && FD_ISSET(efd[0], &fds)) { ssize_t k = read(efd[0], buf, sizeof buf); if (k <= 0) e_open = false; else { err.append(buf, k); if (err.size() > 16384) err.erase(0, err.size() - 8192); } }
  }
  close(pfd[0]); close(efd[0]);
  int st = 0;
  waitpid(pid, &st, 0);
  ChildRes cr{false, 0, 0, false, err.size() > 3000 ? err.substr(0, 3000) : err};
  bool complete = out.size() >= 4 && out.compare(out.size() - 4, 4, "END\n") == 0;
  if (WIFEXITED(st) && WEXITSTATUS(st) == 0 && complete) {
    cr.ok = true;
    size_t p = 0;
    while (p < out.size()) { size_t q = out.find('\n', p); if (q == std::string::npos) q = out.size(); std::string line = out.substr(p, q - p); if (line != "END") into.merge_line(line.c_str()); p = q + 1; }
    return cr;
  }
  if (WIFSIGNALED(st)) { cr.sig = WTERMSIG(st); cr.timeout = cr.sig == SIGALRM; }
  else if (WIFEXITED(st)) cr.exitcode = WEXITSTATUS(st);
  return cr;
}

static inline std::string child_failure_text(const ChildRes &c) {
  if (c.timeout) return "watchdog timeout (hang)";
  if (c.sig) return std::string("killed by signal ") + std::to_string(c.sig) + " (" + strsignal(c.sig) + ")";
  return "process exited with status " + std::to_string(c.exitcode) + " (sanitizer report or exit() inside the library)";
}

// Machinery error: exit 2, never a verdict.
[[noreturn]] static inline void machinery_error(const std::string &msg) {
  fprintf(stderr, "MACHINERY-ERROR: %s\n", msg.c_str());
  exit(2);
}

struct Args {
  std::map<std::string, std::string> kv;
  Args(int argc, char **argv, int from) {
    for (int i = from; i < argc; i++) {
      std::string a = argv[i];
      if (a.rfind("--", 0) == 0) {
        std::string k = a.substr(2);
        if (i + 1 < argc && std::string(argv[i + 1]).rfind("--", 0) != 0) kv[k] = argv[++i]; else kv[k] = "1";
      }
    }
  }
  std::string get(const std::string &k, const std::string &d = "") const { auto it = kv.find(k); return it == kv.end() ? d : it->second; }
  long geti(const std::string &k, long d) const { auto it = kv.find(k); return it == kv.end() ? d : atol(it->second.c_str()); }
  bool has(const std::string &k) const { return kv.count(k) > 0; }
};

static inline std::vector<std::string> split(const std::string &s, char sep) {
  std::vector<std::string> v; size_t p = 0;
  while (p <= s.size()) { size_t q = s.find(sep, p); if (q == std::string::npos) q = s.size(); if (q > p) v.push_back(s.substr(p, q - p)); p = q + 1; }
  return v;
}
