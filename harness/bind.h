/* One API ("vy_*") over libyaep (C functions) and libyaep++ (class yaep).
   The harness core only ever calls these; which library is behind them is a
   link-time choice (bind_c.c or bind_cxx.cpp).  */
#ifndef VY_BIND_H
#define VY_BIND_H
#ifdef __cplusplus
extern "C" {
#endif
struct yaep_tree_node;
struct yaep_term;
typedef const char *(*vy_read_terminal_t) (int *code);
typedef const char *(*vy_read_rule_t) (const char ***rhs, const char **abs_node,
                                       int *anode_cost, int **transl);
typedef int (*vy_read_token_t) (void **attr);
typedef void (*vy_syntax_error_t) (int, void *, int, void *, int, void *);
typedef void *(*vy_alloc_t) (int);
typedef void (*vy_free_t) (void *);
typedef void (*vy_termcb_t) (struct yaep_term *);

const char *vy_binding (void);	/* "c" or "cxx" */
void *vy_create (void);
void vy_free (void *g);
int vy_error_code (void *g);
const char *vy_error_message (void *g);
int vy_read_grammar (void *g, int strict_p, vy_read_terminal_t, vy_read_rule_t);
int vy_parse_grammar (void *g, int strict_p, const char *description);
int vy_set_lookahead_level (void *g, int v);
int vy_set_debug_level (void *g, int v);
int vy_set_one_parse_flag (void *g, int v);
int vy_set_cost_flag (void *g, int v);
int vy_set_error_recovery_flag (void *g, int v);
int vy_set_recovery_match (void *g, int v);
int vy_parse (void *g, vy_read_token_t, vy_syntax_error_t, vy_alloc_t, vy_free_t,
	      struct yaep_tree_node **root, int *ambiguous_p);
void vy_free_tree (struct yaep_tree_node *root, vy_free_t, vy_termcb_t);
/* hash table statistics of the containers behind the binding */
long vy_all_searches (void);
long vy_all_collisions (void);
#ifdef __cplusplus
}
#endif
#endif
