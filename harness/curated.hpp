// Curated grammars (family "cur"): written in the documented description syntax, read by the
// reference reader (desc.hpp) and fed to yaep through the callbacks.
#pragma once
#include "desc.hpp"
#include "common.hpp"

static const char *curated_texts[] = {
  // 0 the E/T/F grammar of the test suite
  "TERM; E : T # 0 | E '+' T # plus (0 2) ; T : F # 0 | T '*' F # mult (0 2) ; F : 'a' # 0 | '(' E ')' # 1 ;",
  // 1 ambiguous expression grammar with costs
  "E : E '+' E # plus 2 (0 2) | E '*' E # mult 1 (0 2) | 'a' # 0 ;",
  // 2 S : S S | a  (Catalan many derivations)
  "S : S S # s (0 1) | 'a' # 0 ;",
  // 3 hidden left recursion
  "S : A S 'b' # s (0 1 2) | 'c' # 0 ; A : # - | 'a' # 0 ;",
  // 4 nullable chain
  "S : A B C # s (0 1 2) ; A : 'a' # 0 | ; B : A # 0 | 'b' # 0 ; C : B A # c (0 1) ;",
  // 5 unit chain
  "S : A # 0 ; A : B # 0 ; B : C # 0 | 'b' # 0 ; C : 'a' # c (0) ;",
  // 6 palindromes
  "S : 'a' S 'a' # p (0 1 2) | 'b' S 'b' # q (0 1 2) | 'a' # 0 | 'b' # 0 | # - ;",
  // 7 dangling else
  "S : 'i' S # if (1) | 'i' S 'e' S # ife (1 3) | 'x' # 0 ;",
  // 8 two rules, same translation shape, different names (cost pruning with sharing)
  "S : X # 0 | Y # 0 ; X : A 'b' # x 0 (0) ; Y : A 'b' # y 0 (0) ; A : 'a' # a 3 (0) ;",
  // 9 three alternatives sharing a TERM node
  "S : A # 0 | B # 0 | C # 0 ; A : 'a' # x 5 (0) ; B : 'a' # y 5 (0) ; C : 'a' # z 1 () ;",
  // 10 statement list with error rule (README style)
  "S : S T # l (0 1) | T # 0 ; T : 'x' ';' # st (0) | error ';' # er () ;",
  // 11 error rule in the middle
  "S : 'a' L 'e' # s (1) ; L : 'x' 'x' # l (0 1) | error 'y' # r (1) | 'y' # y (0) ;",
  // 12 start symbol with its own error rule
  "S : error 'a' # e (1) | 'a' 'c' # s (0 1) ;",
  // 13 right recursive list
  "L : 'x' ',' L # c (0 2) | 'x' # 0 ;",
  // 14 left recursive list
  "L : L ',' 'x' # c (0 2) | 'x' # 0 ;",
  // 15 nullable start, ambiguous empties
  "S : A A # s (0 1) ; A : 'a' # 0 | # - ;",
  // 16 inherently ambiguous a^i b^j c^k
  "S : X C # l (0 1) | A Y # r (0 1) ; X : 'a' X 'b' # x (1) | ; C : 'c' C # c (1) | ; A : 'a' A # a (1) | ; Y : 'b' Y 'c' # y (1) | ;",
  // 17 pass-through of nullable nonterminal
  "S : A 'a' # 0 | 'a' A # 1 ; A : | 'b' # 0 ;",
  // 18 nested error rules
  "P : '(' P ')' # par (1) | 'x' # 0 | '(' error ')' # perr () | error 'x' # xerr () ;",
  // 19 nil-padded abstract node, partial/permuted translation
  "S : 'a' B 'c' # s 2 (2 - 0) ; B : 'b' B # b (1 0) | # nb () ;",
  // 20 permuted translation with an ambiguous middle symbol (copy_anode with filled lower slots)
  "S : A B C # s (2 1 0) ; A : 'a' # a1 (0) | 'a' 'a' # a2 (0 1) ; B : 'a' # b1 (0) | 'a' 'a' # b2 (1 0) ; C : 'c' # c1 (0) ;",
  // 21 ternary ambiguous rule, reversed
  "S : S S S # t (2 1 0) | 'a' # 0 ;",
  // 22 four alternatives with equal and different costs at one ambiguity point
  "S : A # top (0) ; A : 'a' # p 2 (0) | 'a' # q 1 (0) | 'a' # r 1 (0) | 'a' # s 1 (0) ;",
  // 23 ambiguous expression, all costs equal (many ties)
  "E : E '+' E # plus 1 (0 2) | 'a' # 0 ;",
  // 24 nullable nonterminal in the middle of a rule whose item is reached from two origins
  "S : A A # s (0 1) ; A : B C 'y' # a (0 1 2) | 'x' # 0 ; B : 'x' # b1 () | 'x' 'x' # b2 () ; C : # c0 () | 'c' # c1 () ;",
  // 25 the same shape under an optional prefix, nullable chain in the middle
  "S : 'x' A # p (1) | A # 0 ; A : B C D 'y' # a (0 1 2) ; B : 'x' # b1 () | 'x' 'x' # b2 () ; C : D # 0 | 'c' # c1 () ; D : # d0 () ;",
  // 26 FOLLOW sets that need several propagation rounds against the declaration order
  "S : 'p' Y 'q' # s1 (1) | 'p' Z 'r' # s2 (1) | 'a' # 0 ; Z : W 'x' # z1 (0) | W # 0 ; W : V # 0 ; V : Y # 0 ; Y : 'l' S # y (1) ;",
  // 27 the same fragment (B) closed by different brackets: equal sets before its last token, different origins
  "L : L I # l (0 1) | I # 0 ; I : 'k' M # i (1) ; M : '(' B ')' # m1 (1) | '[' B ']' # m2 (1) ; B : 'x' 'y' # b (0 1) ;",
  NULL
};

static inline std::vector<Gram> curated_grammars() {
  std::vector<Gram> v;
  for (int i = 0; curated_texts[i]; i++) {
    DescRes d = read_description(curated_texts[i]);
    if (d.kind != D_VALID) machinery_error(std::string("curated grammar not VALID for the reference reader: ") + curated_texts[i] + " (" + d.why + ")");
    v.push_back(d.g);
  }
  return v;
}
