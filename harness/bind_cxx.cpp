/* C++ binding: the same API through class yaep (libyaep++ and its C++ containers).
   `new yaep' throws nothing on failure of the inner create: class yaep stores a NULL
   grammar then; we detect that through a friend-less trick: error_code() would crash,
   so creation failure is detected by the harness' allocation-failure flag instead
   (see vy_create).  */
#include <new>
#include <cstddef>
#include "yaep.h"
#include "hashtab.h"
#include "bind.h"
extern "C" {
const char *vy_binding (void) { return "cxx"; }
void *vy_create (void)
{
  yaep *y = new (std::nothrow) yaep ();
  if (y == NULL)
    return NULL;
  /* class yaep keeps `struct grammar *grammar' as its only (private, first) member.  */
  if (*(void **) y == NULL)
    {
      delete y;
      return NULL;
    }
  return y;
}
void vy_free (void *g) { delete (yaep *) g; }
int vy_error_code (void *g) { return ((yaep *) g)->error_code (); }
const char *vy_error_message (void *g) { return ((yaep *) g)->error_message (); }
int vy_read_grammar (void *g, int s, vy_read_terminal_t rt, vy_read_rule_t rr)
{ return ((yaep *) g)->read_grammar (s, rt, rr); }
int vy_parse_grammar (void *g, int s, const char *d) { return ((yaep *) g)->parse_grammar (s, d); }
int vy_set_lookahead_level (void *g, int v) { return ((yaep *) g)->set_lookahead_level (v); }
int vy_set_debug_level (void *g, int v) { return ((yaep *) g)->set_debug_level (v); }
int vy_set_one_parse_flag (void *g, int v) { return ((yaep *) g)->set_one_parse_flag (v); }
int vy_set_cost_flag (void *g, int v) { return ((yaep *) g)->set_cost_flag (v); }
int vy_set_error_recovery_flag (void *g, int v) { return ((yaep *) g)->set_error_recovery_flag (v); }
int vy_set_recovery_match (void *g, int v) { return ((yaep *) g)->set_recovery_match (v); }
int vy_parse (void *g, vy_read_token_t rt, vy_syntax_error_t se, vy_alloc_t a, vy_free_t f,
	      struct yaep_tree_node **root, int *amb)
{ return ((yaep *) g)->parse (rt, se, a, f, root, amb); }
void vy_free_tree (struct yaep_tree_node *root, vy_free_t f, vy_termcb_t cb)
{ yaep::free_tree (root, f, cb); }
long vy_all_searches (void) { return (long) (unsigned) hash_table::get_all_searches (); }
long vy_all_collisions (void) { return (long) (unsigned) hash_table::get_all_collisions (); }
}
