// Engine `hist': all sequences of API operations over up to 2-3 live grammar objects.
// Every history is executed from a pristine process (fork), every step is compared with
// (a) what the same call gives on a fresh object in a fresh process brought to the same
// definition and settings and (b) absolute expectations of a small contract model.
// Layer 1: all histories up to a depth (no deduplication).  Layer 2: breadth-first search
// with deduplication on (model state + fingerprint of the library's file-scope state +
// live library blocks).  Serves C14, C15 (and C13/C16 through the same observations).
#include "common.hpp"
#include "gram.hpp"
#include "obs.hpp"
#include "desc.hpp"
#include <unordered_set>
#include <sys/mman.h>

extern "C" {
extern long yaep_verif_live_blocks;
int yaep_verif_fingerprint(struct grammar **live, int n_live, char *buf, int len);
}

static const int MAXSLOT = 3;

// ---------------------------------------------------------------- pools
struct DefPool {
  std::vector<std::string> text;     // non-empty: defined by yaep_parse_grammar
  std::vector<Gram> gram;            // else by callbacks
  std::vector<bool> good;
  std::vector<std::vector<std::vector<int>>> inputs;  // per def: sentence, non-sentence, invalid token, second/ambiguous sentence
};
static DefPool make_pool() {
  DefPool P;
  // d0: ambiguous expression grammar by text; `id' is declared without a code, so the description
  // reader assigns it the first free code (256) - state of the reader that must not leak into later definitions
  P.text.push_back("TERM id; E : E '+' E # plus (0 2) | 'a' # 0 | id # 0 ;"); P.gram.push_back(Gram()); P.good.push_back(true);
  P.inputs.push_back({{'a', '+', 256}, {'a', '+'}, {'a', 'z', 'a'}, {256, '+', 'a', '+', 256}});
  // d1: other (sparse) codes, error rule, by callbacks
  {
    DescRes d = read_description("TERM x = 1000 y = 1001; S : S T # l (0 1) | T # 0 ; T : x y # t (0 1) | error y # e (1) ;");
    if (d.kind != D_VALID) machinery_error("pool grammar d1 invalid");
    P.text.push_back(""); P.gram.push_back(d.g); P.good.push_back(true);
    P.inputs.push_back({{1000, 1001, 1000, 1001}, {1000, 1000, 1001}, {1000, 5, 1001}, {1000, 1001}});
  }
  // d2: description with a syntax error
  P.text.push_back("TERM q r; E : E '+' # ;;; ( "); P.gram.push_back(Gram()); P.good.push_back(false);
  P.inputs.push_back({{'a'}, {'a', 'a'}, {'z'}, {}});
  // d3: loop grammar by callbacks
  {
    Gram g; g.terms = {{"a", 'a'}}; g.nts = {"S"};
    Rule r1; r1.lhs = 0; r1.rhs = {g.NT(0)}; r1.has_transl = true; r1.transl = {0};
    Rule r2; r2.lhs = 0; r2.rhs = {0}; r2.has_transl = true; r2.transl = {0};
    g.rules = {r1, r2};
    P.text.push_back(""); P.gram.push_back(g); P.good.push_back(false);
    P.inputs.push_back({{'a'}, {'a', 'a'}, {'z'}, {}});
  }
  // d4: fails while the terminals are declared (repeated code), by callbacks
  {
    Gram g; g.terms = {{"a", 'a'}, {"b", 'a'}}; g.nts = {"S"};
    Rule r; r.lhs = 0; r.rhs = {0}; r.has_transl = true; r.transl = {0};
    g.rules = {r};
    P.text.push_back(""); P.gram.push_back(g); P.good.push_back(false);
    P.inputs.push_back({{'a'}, {'a', 'a'}, {'z'}, {}});
  }
  // d5: fails while the rules are read (translation refers to a symbol the rule does not have), by text
  P.text.push_back("TERM u; S : u # 3 ;"); P.gram.push_back(Gram()); P.good.push_back(false);
  P.inputs.push_back({{256}, {256, 256}, {'z'}, {}});
  return P;
}
static DefPool POOL;

struct SlotM { bool exists = false; int def = -1; /* -1 undefined, >=0 pool index (good or bad) */ Flags fl; int last_err = 0; bool tree = false; };
struct Model { SlotM s[MAXSLOT]; };

static std::string flags_key(const Flags &f) { char b[64]; snprintf(b, sizeof b, "%d%d%d%d", f.la, f.one, f.cost, f.rec); return b; }
static std::string model_key(const Model &m, int nslots) {
  std::string k;
  for (int i = 0; i < nslots; i++) {
    const SlotM &s = m.s[i];
    if (!s.exists) { k += "[-]"; continue; }
    k += "[d" + std::to_string(s.def) + " f" + flags_key(s.fl) + " e" + std::to_string(s.last_err) + (s.tree ? " T" : "") + "]";
  }
  return k;
}

// ops: "C", "F<s>", "D<s><d>", "M<s><m>", "P<s><i>", "T<s>"
static std::vector<std::string> enabled_ops(const Model &m, int nslots) {
  std::vector<std::string> ops;
  for (int i = 0; i < nslots; i++) if (!m.s[i].exists) { ops.push_back("C"); break; }
  for (int i = 0; i < nslots; i++) {
    if (!m.s[i].exists) continue;
    std::string si = std::to_string(i);
    ops.push_back("F" + si);
    for (size_t d = 0; d < POOL.text.size(); d++) ops.push_back("D" + si + std::to_string(d));
    for (int mm = 0; mm < 5; mm++) ops.push_back("M" + si + std::to_string(mm));
    for (int in = 0; in < 5; in++) ops.push_back("P" + si + std::to_string(in));   // 4 = NULL parse_alloc with a parse_free
    if (m.s[i].tree) ops.push_back("T" + si);
  }
  return ops;
}
static std::vector<std::string> split_ops(const std::string &h) {
  std::vector<std::string> v;
  for (size_t i = 0; i < h.size();) { size_t n = h[i] == 'C' ? 1 : (h[i] == 'F' || h[i] == 'T') ? 2 : 3; v.push_back(h.substr(i, n)); i += n; }
  return v;
}

// ---------------------------------------------------------------- executing one call
static std::string tree_string(const ParseObs &o, int ntoks) {
  if (o.root == NULL) return "NULL";
  DenRes d = denote(o.root, ntoks, true);
  std::string s;
  for (auto &t : d.trees) s += t + ";";
  for (auto &x : d.shape) s += "SHAPE:" + x + ";";
  return s;
}
static int do_define(void *y, int d) { return POOL.text[d].empty() ? define_by_callbacks(y, POOL.gram[d], 0) : define_by_text(y, POOL.text[d], 0); }
static std::string obs_define(void *y, int d) {
  int rc = do_define(y, d);
  return "rc=" + std::to_string(rc) + (rc ? std::string(" msg=") + vy_error_message(y) : std::string());
}
static std::string obs_parse(void *y, const std::vector<int> &in, ParseObs *keep) {
  ParseObs o = run_parse(y, in, 0);
  std::string s = "rc=" + std::to_string(o.rc);
  if (o.rc) s += std::string(" msg=") + vy_error_message(y);
  else {
    s += " amb=" + std::to_string(o.amb) + " errs=";
    for (auto &e : o.errs) s += "(" + std::to_string(e.err) + "@" + std::to_string(e.err_a) + "," + std::to_string(e.ign) + "," + std::to_string(e.rec) + ")";
    s += " tree=" + tree_string(o, (int) in.size());
  }
  for (auto &e : g_trk.errors) s += " ALLOC:" + e;
  g_trk.errors.clear();
  if (keep) *keep = o;
  return s;
}
static void set_mode(Flags &f, int m) { switch (m) { case 0: f.la = 0; break; case 1: f.la = 2; break; case 2: f.one = 0; break; case 3: f.cost = 1; break; case 4: f.rec = 0; break; } }
static int call_mode(void *y, int m) { switch (m) { case 0: return vy_set_lookahead_level(y, 0); case 1: return vy_set_lookahead_level(y, 2); case 2: return vy_set_one_parse_flag(y, 0); case 3: return vy_set_cost_flag(y, 1); default: return vy_set_error_recovery_flag(y, 0); } }
static int model_mode_old(const Flags &f, int m) { switch (m) { case 0: case 1: return f.la; case 2: return f.one; case 3: return f.cost; default: return f.rec; } }

// expected observations on a fresh object: key -> obs, precomputed by forked children
static std::map<std::string, std::string> EXPECT;
static std::string expect_key_define(int d) { return "D" + std::to_string(d); }
static std::string expect_key_parse(int def, const Flags &f, int in) { return "P" + std::to_string(def) + "/" + flags_key(f) + "/" + std::to_string(in); }

static std::string fresh_scenario(const std::string &key) {
  void *y = vy_create();
  if (!y) return "create failed";
  if (key[0] == 'D') { int d = atoi(key.c_str() + 1); std::string o = obs_define(y, d); vy_free(y); return o; }
  int def, in; char fk[16];
  sscanf(key.c_str(), "P%d/%4[0-9]/%d", &def, fk, &in);
  Flags f; f.la = fk[0] - '0'; f.one = fk[1] - '0'; f.cost = fk[2] - '0'; f.rec = fk[3] - '0';
  if (def >= 0) do_define(y, def);
  apply_flags(y, f);
  std::string o = obs_parse(y, POOL.inputs[def < 0 ? 0 : def][in], NULL);
  return o;   // the process ends here; nothing is freed on purpose (pristine-process observation)
}

// ---------------------------------------------------------------- running a history
struct HistRes { std::vector<std::string> viols; std::string key; std::string log; long digest = 0; };

static HistRes run_history(const std::string &hist, int nslots, bool verbose) {
  HistRes R;
  Model m;
  void *obj[MAXSLOT] = {NULL, NULL, NULL};
  ParseObs tree[MAXSLOT];
  int tree_epoch[MAXSLOT] = {0, 0, 0};
  int live_trees = 0;
  auto V = [&](const std::string &prop, const std::string &kind, const std::string &step, const std::string &detail) {
    R.viols.push_back(prop + "\t" + kind + "\t" + step + "\t" + detail);
  };
  std::vector<std::string> ops = split_ops(hist);
  std::string done;
  for (auto &op : ops) {
    done += op;
    std::string ob;
    int s = op.size() > 1 ? op[1] - '0' : -1;
    switch (op[0]) {
    case 'C': {
      int k = 0; while (m.s[k].exists) k++;
      obj[k] = vy_create();
      if (!obj[k]) { V("C14", "create-null", done, "yaep_create_grammar returned NULL"); goto out; }
      m.s[k] = SlotM(); m.s[k].exists = true; s = k;
      ob = "created";
      // defaults (C15): lookahead 1, one parse 1, cost 0, recovery 1, match 3, debug 0, error code 0
      if (vy_error_code(obj[k]) != 0) V("C15", "new-object-error-code", done, "yaep_error_code of a new object is " + std::to_string(vy_error_code(obj[k])));
      break;
    }
    case 'F':
      vy_free(obj[s]); obj[s] = NULL; m.s[s].exists = false; ob = "freed";
      break;
    case 'D': {
      int d = op[2] - '0';
      ob = obs_define(obj[s], d);
      int rc = atoi(ob.c_str() + 3);
      const std::string &ex = EXPECT[expect_key_define(d)];
      if (ob != ex) V("C14", "define-differs-from-fresh", done, "define d" + std::to_string(d) + " gave [" + ob + "], on a fresh object [" + ex + "]");
      if ((rc == 0) != POOL.good[d]) V("C14", "define-verdict", done, "define d" + std::to_string(d) + " returned " + std::to_string(rc));
      m.s[s].def = d;
      if (rc) { m.s[s].last_err = rc; if (vy_error_code(obj[s]) != rc) V("C15", "error-code-after-failure", done, "yaep_error_code = " + std::to_string(vy_error_code(obj[s])) + " after a definition that returned " + std::to_string(rc)); if (!*vy_error_message(obj[s])) V("C15", "empty-message", done, "empty message after failing definition"); }
      break;
    }
    case 'M': {
      int mm = op[2] - '0';
      int old = call_mode(obj[s], mm);
      int want = model_mode_old(m.s[s].fl, mm);
      if (old != want) V("C15", "setter-previous-value", done, "setter returned " + std::to_string(old) + ", previous value was " + std::to_string(want));
      set_mode(m.s[s].fl, mm);
      ob = "old=" + std::to_string(old);
      break;
    }
    case 'P': {
      int in = op[2] - '0';
      int d = m.s[s].def;
      if (in == 4) {   // NULL allocator with a free function: YAEP_NO_MEMORY whatever the state of the object
        std::vector<int> none; g_tok.codes = &none; g_tok.i = 0; struct yaep_tree_node *root = NULL; int amb = 0;
        int rc = vy_parse(obj[s], cb_read_token, cb_syntax_error, NULL, trk_free, &root, &amb);
        ob = "rc=" + std::to_string(rc);
        if (rc != YAEP_NO_MEMORY) V("C15", "null-alloc", done, "yaep_parse with NULL parse_alloc and non-NULL parse_free returned " + std::to_string(rc));
        else { m.s[s].last_err = rc; if (vy_error_code(obj[s]) != rc || !*vy_error_message(obj[s])) V("C15", "error-code-after-failure", done, "yaep_error_code = " + std::to_string(vy_error_code(obj[s])) + ", message \"" + vy_error_message(obj[s]) + "\" after YAEP_NO_MEMORY on this object"); }
        break;
      }
      const std::vector<int> &toks = POOL.inputs[d < 0 ? 0 : d][in];
      if (m.s[s].tree) { /* previous tree of this slot stays alive: two trees alive; it is dropped from the model (still tracked for leaks at the end) */ }
      ParseObs o;
      ob = obs_parse(obj[s], toks, &o);
      const std::string &ex = EXPECT[expect_key_parse(d, m.s[s].fl, in)];
      if (ob != ex) V("C14", "parse-differs-from-fresh", done, "parse gave [" + ob + "], the same call on a fresh object with the same definition and settings gives [" + ex + "]");
      bool usable = d >= 0 && POOL.good[d];
      if (!usable) {   // both statements say it: C14 "a failed definition leaves the object unusable", C15 "UNDEFINED_OR_BAD_GRAMMAR iff no grammar is defined"
        if (o.rc != YAEP_UNDEFINED_OR_BAD_GRAMMAR) { V("C14", "parse-on-unusable-object", done, "yaep_parse returned " + std::to_string(o.rc) + " on an undefined / badly defined object"); V("C15", "undefined-grammar-code", done, "yaep_parse returned " + std::to_string(o.rc) + " although no grammar is defined on the object (YAEP_UNDEFINED_OR_BAD_GRAMMAR expected)"); }
      }
      else if (in == 2) { if (o.rc != YAEP_INVALID_TOKEN_CODE) V("C15", "invalid-token", done, "yaep_parse returned " + std::to_string(o.rc) + " for an undeclared token code"); }
      else {
        if (o.rc == YAEP_UNDEFINED_OR_BAD_GRAMMAR || o.rc == YAEP_INVALID_TOKEN_CODE) V("C15", "code-without-cause", done, "yaep_parse returned " + std::to_string(o.rc) + " on a defined grammar and declared token codes");
        if (o.rc != 0) V("C14", "parse-failed", done, "yaep_parse returned " + std::to_string(o.rc));
        else if ((in == 1) != !o.errs.empty()) V("C14", "parse-verdict", done, std::string(in == 1 ? "non-sentence" : "sentence") + " with " + std::to_string(o.errs.size()) + " syntax errors");
      }
      if (o.rc) { m.s[s].last_err = o.rc; if (vy_error_code(obj[s]) != o.rc) V("C15", "error-code-after-failure", done, "yaep_error_code = " + std::to_string(vy_error_code(obj[s])) + " after yaep_parse returned " + std::to_string(o.rc)); if (!*vy_error_message(obj[s])) V("C15", "empty-message", done, "empty message after failing parse"); }
      if (o.rc == 0 && o.root) { if (m.s[s].tree) live_trees--; tree[s] = o; tree_epoch[s] = g_trk.epoch; m.s[s].tree = true; live_trees++; }
      break;
    }
    case 'T': {
      vy_free_tree(tree[s].root, trk_free, NULL);
      for (auto &e : g_trk.errors) V("C13", "free-tree-pairing", done, e);
      g_trk.errors.clear();
      if (g_trk.live_epoch(tree_epoch[s]) != 0) V("C13", "leak-after-free-tree", done, std::to_string(g_trk.live_epoch(tree_epoch[s])) + " blocks of that parse still live");
      m.s[s].tree = false; live_trees--;
      ob = "tree freed";
      break;
    }
    }
    // invariants after every call: error codes of all live objects, settings untouched by calls on other objects
    for (int k = 0; k < nslots; k++) if (m.s[k].exists && vy_error_code(obj[k]) != m.s[k].last_err)
      V("C15", "error-code-drift", done, "slot " + std::to_string(k) + ": yaep_error_code = " + std::to_string(vy_error_code(obj[k])) + ", most recent failing call on that object returned " + std::to_string(m.s[k].last_err));
    { unsigned long h = 1469598103934665603ULL; for (char c : done + "=" + ob) h = (h ^ (unsigned char) c) * 1099511628211ULL; R.digest += (long) (h >> 36); }
    if (verbose) R.log += "  " + op + " -> " + ob + "\n";
  }
out:
  // state key
  {
    struct grammar *live[MAXSLOT];
    for (int k = 0; k < nslots; k++) {
      void *o = obj[k];
      if (o && std::string(vy_binding()) == "cxx") o = *(void **) o;   // class yaep holds the grammar pointer as its only member
      live[k] = (struct grammar *) o;
    }
    char buf[1024];
    yaep_verif_fingerprint(live, nslots, buf, sizeof buf);
    bool any = false; for (int k = 0; k < nslots; k++) if (m.s[k].exists) any = true;
    if (!any && yaep_verif_live_blocks != 0) V("C14", "library-memory-leak", done, "all objects freed but the library still holds " + std::to_string(yaep_verif_live_blocks) + " allocated blocks");
    R.key = model_key(m, nslots) + " | " + buf + " | blocks=" + std::to_string(yaep_verif_live_blocks) + " trees=" + std::to_string(g_trk.live());
  }
  return R;
}

// simulate only the model (no yaep) to know which operations are enabled after a history
static Model model_after(const std::string &hist) {
  Model m;
  for (auto &op : split_ops(hist)) {
    int s = op.size() > 1 ? op[1] - '0' : -1;
    switch (op[0]) {
    case 'C': { int k = 0; while (m.s[k].exists) k++; m.s[k] = SlotM(); m.s[k].exists = true; break; }
    case 'F': m.s[s].exists = false; break;
    case 'D': m.s[s].def = op[2] - '0'; break;
    case 'M': set_mode(m.s[s].fl, op[2] - '0'); break;
    case 'P': { int d = m.s[s].def; int in = op[2] - '0'; bool usable = d >= 0 && POOL.good[d]; if (usable && in != 2 && in != 4) m.s[s].tree = true; break; }
    case 'T': m.s[s].tree = false; break;
    }
  }
  return m;
}

// ---------------------------------------------------------------- parallel execution of histories (each in a pristine child)
struct WorkRes { std::string hist; std::vector<std::string> viols; std::string key; bool crashed = false; std::string crash; long digest = 0; };

static WorkRes run_one_forked(const std::string &h, int nslots, int timeout) {
  WorkRes w; w.hist = h;
  Report tmp;
  std::string keyout;
  int pfd[2]; if (pipe(pfd)) machinery_error("pipe");
  ChildRes cr = run_child([&](Report &r) {
    HistRes hr = run_history(h, nslots, false);
    std::string out = "K\t" + hr.key + "\nG\t" + std::to_string(hr.digest) + "\n";
    for (auto &v : hr.viols) out += "V\t" + v + "\n";
    ssize_t k = write(pfd[1], out.c_str(), out.size()); (void) k; (void) r;
  }, tmp, timeout);
  close(pfd[1]);
  std::string data; char buf[4096]; ssize_t k;
  while ((k = read(pfd[0], buf, sizeof buf)) > 0) data.append(buf, k);
  close(pfd[0]);
  if (!cr.ok) { w.crashed = true; w.crash = child_failure_text(cr) + (cr.err_tail.empty() ? "" : "; stderr: " + cr.err_tail.substr(0, 1200)); return w; }
  size_t p = 0;
  while (p < data.size()) { size_t q = data.find('\n', p); std::string line = data.substr(p, q - p); if (line[0] == 'K') w.key = line.substr(2); else if (line[0] == 'G') w.digest = atol(line.c_str() + 2); else if (line[0] == 'V') w.viols.push_back(line.substr(2)); p = q + 1; }
  return w;
}

// run all items with up to `par' worker processes; each worker handles a slice and forks per history
static std::vector<WorkRes> run_many(const std::vector<std::string> &items, int nslots, int par, int timeout) {
  std::vector<WorkRes> res(items.size());
  if (items.empty()) return res;
  int nw = std::min<int>(par, (int) items.size());
  std::vector<int> fds(nw); std::vector<pid_t> pids(nw);
  for (int w = 0; w < nw; w++) {
    int pfd[2]; if (pipe(pfd)) machinery_error("pipe");
    fflush(stdout);
    pid_t pid = fork();
    if (pid < 0) machinery_error("fork");
    if (pid == 0) {
      close(pfd[0]);
      FILE *f = fdopen(pfd[1], "w");
      for (size_t i = w; i < items.size(); i += nw) {
        WorkRes r = run_one_forked(items[i], nslots, timeout);
        if (r.crashed) {  // replay before report
          WorkRes r2 = run_one_forked(items[i], nslots, timeout * 5);
          if (!r2.crashed) { r = r2; r.viols.push_back("C14\tnondeterministic\t" + items[i] + "\thistory crashed once and passed on replay"); }
        }
        fprintf(f, "I\t%zu\n", i);
        auto flat = [](std::string x) { for (auto &c : x) if (c == '\n' || c == '\r') c = ' '; return x; };
        if (r.crashed) fprintf(f, "X\t%s\n", flat(r.crash).c_str());
        fprintf(f, "K\t%s\nG\t%ld\n", r.key.c_str(), r.digest);
        for (auto &v : r.viols) fprintf(f, "V\t%s\n", flat(v).c_str());
      }
      fclose(f);
      _exit(0);
    }
    close(pfd[1]); fds[w] = pfd[0]; pids[w] = pid;
  }
  for (int w = 0; w < nw; w++) {
    std::string data; char buf[65536]; ssize_t k;
    while ((k = read(fds[w], buf, sizeof buf)) > 0) data.append(buf, k);
    close(fds[w]);
    int st; waitpid(pids[w], &st, 0);
    if (!WIFEXITED(st) || WEXITSTATUS(st) != 0) machinery_error("history worker died");
    size_t p = 0, cur = 0;
    while (p < data.size()) {
      size_t q = data.find('\n', p); std::string line = data.substr(p, q - p); p = q + 1;
      if (line[0] == 'I') { cur = atol(line.c_str() + 2); res[cur].hist = items[cur]; }
      else if (line[0] == 'K') res[cur].key = line.substr(2);
      else if (line[0] == 'G') res[cur].digest = atol(line.c_str() + 2);
      else if (line[0] == 'X') { res[cur].crashed = true; res[cur].crash = line.substr(2); }
      else if (line[0] == 'V') res[cur].viols.push_back(line.substr(2));
    }
  }
  return res;
}

static std::string g_crash_prop = "C14";
static void record(const WorkRes &w, const std::string &prop_filter, Report &rep) {
  auto emit = [&](const std::string &prop, const std::string &kind, const std::string &step, const std::string &detail) {
    if (!prop_filter.empty() && prop_filter.find(prop) == std::string::npos) { rep.add("violations_of_other_properties_seen"); return; }
    rep.viol("{\"property\":" + jstr(prop) + ",\"kind\":" + jstr(kind) + ",\"engine\":\"hist\",\"case\":" + jstr("hist=" + w.hist) + ",\"grammar\":" + jstr("failing prefix " + step) + ",\"detail\":" + jstr(detail) + "}");
  };
  if (w.crashed) { emit(g_crash_prop, "crash", w.hist, w.crash); return; }
  for (auto &v : w.viols) { auto f = split(v, '\t'); if (f.size() >= 4) emit(f[0], f[1], f[2], f[3]); else emit("C14", "malformed", w.hist, v); }
}

// ---------------------------------------------------------------- C15: setters, defaults, token validation
static void c15_contract(Report &rep) {
  auto V = [&](const std::string &kind, const std::string &cs, const std::string &detail) {
    rep.viol("{\"property\":\"C15\",\"kind\":" + jstr(kind) + ",\"engine\":\"hist\",\"case\":" + jstr("contract " + cs) + ",\"grammar\":\"\",\"detail\":" + jstr(detail) + "}");
  };
  typedef int (*setter_t)(void *, int);
  struct S { const char *name; setter_t f; int dflt; bool clamp; };
  S setters[] = {{"lookahead_level", vy_set_lookahead_level, 1, true}, {"one_parse_flag", vy_set_one_parse_flag, 1, false}, {"cost_flag", vy_set_cost_flag, 0, false},
                 {"error_recovery_flag", vy_set_error_recovery_flag, 1, false}, {"recovery_match", vy_set_recovery_match, 3, false}, {"debug_level", vy_set_debug_level, 0, false}};
  const int args[] = {INT_MIN, -1, 0, 1, 2, 3, INT_MAX};
  // all sequences of length <= 3 per setter
  for (auto &st : setters) {
    for (int len = 1; len <= 3; len++) {
      int idx[3] = {0, 0, 0};
      for (;;) {
        void *y = vy_create();
        int stored = st.dflt;
        std::string cs = std::string(st.name) + "(";
        for (int k = 0; k < len; k++) {
          int arg = args[idx[k]];
          int old = st.f(y, arg);
          cs += std::to_string(arg) + (k + 1 < len ? "," : ")");
          rep.add("setter_calls");
          if (old != stored) V(k == 0 ? "default-value" : "setter-previous-value", cs, std::string("yaep_set_") + st.name + " returned " + std::to_string(old) + ", previous value " + std::to_string(stored) + (k == 0 ? " (documented default)" : ""));
          stored = st.clamp ? (arg < 0 ? 0 : arg > 2 ? 2 : arg) : arg;
        }
        // setters of one parameter must not disturb the others
        for (auto &o : setters) if (o.f != st.f) { int v = o.f(y, o.dflt); if (v != o.dflt) V("setter-crosstalk", cs, std::string(o.name) + " reads " + std::to_string(v) + " after calls of another setter"); }
        vy_free(y);
        int k = len - 1; while (k >= 0 && ++idx[k] == 7) { idx[k] = 0; k--; }
        if (k < 0) break;
      }
    }
  }
  // token validation over code layouts
  struct L { const char *name; std::vector<int> codes; };
  std::vector<L> layouts = {{"dense", {10, 11, 12, 13, 14}}, {"gappy", {10, 13, 400}}, {"sparse", {1, 20000}}, {"zero", {0}}, {"intmax", {INT_MAX}}, {"big-gap", {5, 9999 + 5}}, {"hash-path", {5, 10000 + 5}}};
  for (auto &l : layouts) {
    Gram g; g.nts = {"S", "X"};
    for (size_t i = 0; i < l.codes.size(); i++) g.terms.push_back({"t" + std::to_string(i), l.codes[i]});
    // S : X S | X ; X : t0 | t1 | ...   (every declared terminal is a sentence token anywhere)
    Rule r1; r1.lhs = 0; r1.rhs = {g.NT(1), g.NT(0)}; Rule r2; r2.lhs = 0; r2.rhs = {g.NT(1)};
    g.rules = {r1, r2};
    for (size_t i = 0; i < l.codes.size(); i++) { Rule r; r.lhs = 1; r.rhs = {(int) i}; g.rules.push_back(r); }
    std::set<long> cand;
    for (int c : l.codes) for (long d = -2; d <= 2; d++) cand.insert((long) c + d);
    long mn = *std::min_element(l.codes.begin(), l.codes.end()), mx = *std::max_element(l.codes.begin(), l.codes.end());
    if (mx - mn < 600) for (long c = mn - 2; c <= mx + 2; c++) cand.insert(c);
    cand.insert(0); cand.insert(INT_MAX); cand.insert(255); cand.insert(256);
    void *y = vy_create();
    if (define_by_callbacks(y, g, 1) != 0) machinery_error(std::string("token layout grammar rejected: ") + vy_error_message(y));
    std::set<int> declared(l.codes.begin(), l.codes.end());
    for (long c : cand) {
      if (c > INT_MAX || c < INT_MIN) continue;
      for (int pos = 0; pos < 3; pos++) {
        std::vector<int> in(3, l.codes[0]); in[pos] = (int) c;
        ParseObs o = run_parse(y, in, 0);
        rep.add("token_cases");
        std::string cs = std::string("layout=") + l.name + " code=" + std::to_string(c) + " pos=" + std::to_string(pos);
        if (c < 0) { if (o.rc != 0) V("negative-code-ends-input", cs, "a negative code must end the input; yaep_parse returned " + std::to_string(o.rc)); }
        else if (declared.count((int) c)) { if (o.rc != 0 || !o.errs.empty()) V("declared-code-rejected", cs, "rc=" + std::to_string(o.rc) + " errs=" + std::to_string(o.errs.size())); }
        else {
          rep.add("token_cases_undeclared");
          if (o.rc != YAEP_INVALID_TOKEN_CODE) V("undeclared-code-accepted", cs, "yaep_parse returned " + std::to_string(o.rc) + " for an undeclared code");
          else if (vy_error_code(y) != YAEP_INVALID_TOKEN_CODE || !*vy_error_message(y)) V("error-state", cs, "error code/message not set after YAEP_INVALID_TOKEN_CODE");
        }
        if (o.rc == 0 && o.root) vy_free_tree(o.root, trk_free, NULL);
        g_trk.reset();
      }
    }
    // NULL allocator with non-NULL free
    {
      std::vector<int> in(1, l.codes[0]); g_tok.codes = &in; g_tok.i = 0; struct yaep_tree_node *root; int amb;
      void *z = vy_create(); define_by_callbacks(z, g, 1);
      int rc = vy_parse(z, cb_read_token, cb_syntax_error, NULL, trk_free, &root, &amb);
      if (rc != YAEP_NO_MEMORY) V("null-alloc", l.name, "yaep_parse with NULL parse_alloc and non-NULL parse_free returned " + std::to_string(rc));
      else if (vy_error_code(z) != YAEP_NO_MEMORY || !*vy_error_message(z)) V("null-alloc-error-state", l.name, "yaep_error_code = " + std::to_string(vy_error_code(z)) + ", message \"" + vy_error_message(z) + "\" after YAEP_NO_MEMORY");
      vy_free(z);
    }
    vy_free(y);
  }
}

int eng_hist_main(int argc, char **argv) {
  Args a(argc, argv, 2);
  POOL = make_pool();
  int nslots = (int) a.geti("slots", 2), full_depth = (int) a.geti("full", 4), bfs_depth = (int) a.geti("bfs", 7), par = (int) a.geti("par", 16), timeout = (int) a.geti("timeout", 20);
  std::string props = a.get("props", "");
  g_crash_prop = a.get("crash-prop", props.find("C15") == 0 ? "C15" : "C14");
  long maxstates = a.geti("maxstates", 400000);
  double deadline = a.has("deadline") ? now_s() + a.geti("deadline", 0) : 0;
  // expectations on fresh objects
  {
    std::vector<std::string> keys;
    for (size_t d = 0; d < POOL.text.size(); d++) keys.push_back(expect_key_define((int) d));
    for (int def = -1; def < (int) POOL.text.size(); def++) for (int la : {0, 1, 2}) for (int one : {0, 1}) for (int cost : {0, 1}) for (int rec : {0, 1}) for (int in = 0; in < 4; in++) {
      Flags f; f.la = la; f.one = one; f.cost = cost; f.rec = rec; keys.push_back(expect_key_parse(def, f, in));
    }
    for (auto &k : keys) {
      int pfd[2]; if (pipe(pfd)) machinery_error("pipe");
      Report tmp;
      ChildRes cr = run_child([&](Report &) { std::string o = fresh_scenario(k); ssize_t n = write(pfd[1], o.c_str(), o.size()); (void) n; }, tmp, timeout);
      close(pfd[1]);
      std::string data; char buf[4096]; ssize_t n;
      while ((n = read(pfd[0], buf, sizeof buf)) > 0) data.append(buf, n);
      close(pfd[0]);
      EXPECT[k] = cr.ok ? data : "CRASH ON FRESH OBJECT: " + child_failure_text(cr);
    }
  }
  if (a.has("case")) {  // replay one history verbosely, in a pristine child, twice
    std::string h = a.get("case"); if (h.rfind("hist=", 0) == 0) h = h.substr(5);
    HistRes r = run_history(h, nslots, true);
    printf("history %s\n%s  final state: %s\n", h.c_str(), r.log.c_str(), r.key.c_str());
    for (auto &v : r.viols) printf("VIOLATION-DETAIL %s\n", v.c_str());
    return 0;
  }
  Report rep;
  bool hit = false;
  if (props.empty() || props.find("C15") != std::string::npos) {
    ChildRes cr = run_child([&](Report &r) { c15_contract(r); }, rep, 300);
    if (!cr.ok) rep.viol("{\"property\":" + jstr(a.has("crash-prop") ? g_crash_prop : std::string("C15")) + ",\"kind\":\"crash\",\"engine\":\"hist\",\"case\":\"contract\",\"grammar\":\"\",\"detail\":" + jstr(child_failure_text(cr) + "; stderr: " + cr.err_tail.substr(0, 1500)) + "}");
  }
  // ---- layer 1: every history up to full_depth, no deduplication
  std::vector<std::string> level{""};
  for (int d = 1; d <= full_depth && !hit; d++) {
    std::vector<std::string> next;
    for (auto &h : level) { Model m = model_after(h); for (auto &op : enabled_ops(m, nslots)) next.push_back(h + op); }
    level.swap(next);
    if (d < full_depth) continue;   // prefixes are re-executed (and re-checked) inside the longer histories
    for (size_t b = 0; b < level.size(); b += 20000) {
      if (deadline > 0 && now_s() > deadline) { hit = true; break; }
      std::vector<std::string> chunk(level.begin() + b, level.begin() + std::min(level.size(), b + 20000));
      std::vector<WorkRes> rs = run_many(chunk, nslots, par, timeout);
      for (auto &w : rs) { rep.add("histories_full_layer"); rep.add("api_calls", (long) split_ops(w.hist).size()); rep.counters["dg:full" + std::to_string(w.hist.size() % 7)] += w.digest; record(w, props, rep); }
      if (rep.violations.size() >= 100) break;
    }
  }
  rep.add("full_layer_depth", hit ? 0 : full_depth);
  // ---- layer 2: BFS with deduplication
  std::unordered_set<std::string> seen;
  std::vector<std::string> frontier{""};
  seen.insert("init");
  int depth_done = 0;
  for (int d = 1; d <= bfs_depth && !hit && !frontier.empty() && rep.violations.size() < 100; d++) {
    std::vector<std::string> cand;
    for (auto &h : frontier) { Model m = model_after(h); for (auto &op : enabled_ops(m, nslots)) cand.push_back(h + op); }
    std::vector<std::string> nextf;
    for (size_t b = 0; b < cand.size(); b += 20000) {
      if (deadline > 0 && now_s() > deadline) { hit = true; break; }
      std::vector<std::string> chunk(cand.begin() + b, cand.begin() + std::min(cand.size(), b + 20000));
      std::vector<WorkRes> rs = run_many(chunk, nslots, par, timeout);
      for (auto &w : rs) {
        rep.add("transitions_bfs"); rep.add("api_calls", (long) split_ops(w.hist).size());
        record(w, props, rep);
        if (w.crashed || !w.viols.empty()) continue;      // do not expand beyond a violation
        if (seen.insert(w.key).second) { nextf.push_back(w.hist); if (rep.samples.size() < 5 && d >= 4 && nextf.size() % 50 == 1) rep.sample("{\"history\":" + jstr(w.hist) + ",\"state\":" + jstr(w.key) + "}"); }
      }
      if ((long) seen.size() > maxstates) { rep.add("state_cap_hit"); hit = true; break; }
    }
    if (!hit) depth_done = d;
    frontier.swap(nextf);
  }
  rep.add("states", (long) seen.size()); rep.add("bfs_depth_completed", depth_done); rep.add("bfs_fixpoint", frontier.empty() ? 1 : 0);
  rep.add("transitions", rep.counters["histories_full_layer"] + rep.counters["transitions_bfs"]);
  char extra[64]; snprintf(extra, sizeof extra, ",\n \"deadline_hit\": %s", hit ? "true" : "false");
  rep.write_json(a.get("out", "/dev/stdout"), extra);
  return 0;
}
