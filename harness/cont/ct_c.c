#include <stdlib.h>
#include <string.h>
#include "allocate.h"
#include "hashtab.h"
#include "objstack.h"
#include "vlobject.h"
#include "ct.h"
static int keys[16] = { 0, 1, 2, 3, 4, 5, 6, 7, 8, 9, 10, 11, 12, 13, 14, 15 };
static unsigned h_const (hash_table_entry_t e) { (void) e; return 0; }
static unsigned h_id (hash_table_entry_t e) { return *(const int *) e; }
static unsigned h_mod2 (hash_table_entry_t e) { return *(const int *) e % 2; }
static unsigned h_mul (hash_table_entry_t e) { return *(const int *) e * 7u; }
static int k_eq (hash_table_entry_t a, hash_table_entry_t b) { return *(const int *) a == *(const int *) b; }
static unsigned (*hfn[]) (hash_table_entry_t) = { h_const, h_id, h_mod2, h_mul };
const char *ct_binding (void) { return "c"; }
void *ct_alloc_new (void) { return yaep_alloc_new (ctm_malloc, ctm_calloc, ctm_realloc, ctm_free); }
void ct_alloc_del (void *a) { yaep_alloc_del ((YaepAllocator *) a); }
void *ct_ht_create (void *alloc, int size, int hashfn) { return create_hash_table ((YaepAllocator *) alloc, size, hfn[hashfn], k_eq); }
void ct_ht_delete (void *t) { delete_hash_table ((hash_table_t) t); }
void ct_ht_empty (void *t) { empty_hash_table ((hash_table_t) t); }
int ct_ht_find (void *t, int key) { return *find_hash_table_entry ((hash_table_t) t, &keys[key], 0) != NULL; }
int ct_ht_insert (void *t, int key)
{
  hash_table_entry_t *e = find_hash_table_entry ((hash_table_t) t, &keys[key], 1);
  if (*e == NULL) { *e = &keys[key]; return 0; }
  if (*e == (void *) 1) { *e = &keys[key]; return 2; }
  if (*(const int *) *e == key) return 1;
  return 2;
}
void ct_ht_remove (void *t, int key) { remove_element_from_hash_table_entry ((hash_table_t) t, &keys[key]); }
long ct_ht_size (void *t) { return hash_table_size ((hash_table_t) t); }
long ct_ht_count (void *t) { return hash_table_elements_number ((hash_table_t) t); }
int ct_ht_dump (void *t, int *out, int max, long *ne, long *nd)
{
  hash_table_t h = (hash_table_t) t; size_t i;
  *ne = h->number_of_elements; *nd = h->number_of_deleted_elements;
  for (i = 0; i < h->size && (int) i < max; i++)
    out[i] = h->entries[i] == NULL ? -1 : h->entries[i] == (void *) 1 ? -2 : *(const int *) h->entries[i];
  return (int) h->size;
}
void *ct_os_create (void *alloc, int len) { os_t *o = malloc (sizeof (os_t)); OS_CREATE (*o, (YaepAllocator *) alloc, len); return o; }
void ct_os_delete (void *o) { OS_DELETE (*(os_t *) o); free (o); }
void ct_os_empty (void *o) { OS_EMPTY (*(os_t *) o); }
void ct_os_add_byte (void *o, int b) { OS_TOP_ADD_BYTE (*(os_t *) o, b); }
void ct_os_add_memory (void *o, const void *p, int len) { OS_TOP_ADD_MEMORY (*(os_t *) o, p, len); }
void ct_os_add_string (void *o, const char *s) { OS_TOP_ADD_STRING (*(os_t *) o, s); }
void ct_os_expand (void *o, int len) { OS_TOP_EXPAND (*(os_t *) o, len); }
void ct_os_shorten (void *o, int n) { OS_TOP_SHORTEN (*(os_t *) o, n); }
void ct_os_finish (void *o) { OS_TOP_FINISH (*(os_t *) o); }
void ct_os_nullify (void *o) { OS_TOP_NULLIFY (*(os_t *) o); }
long ct_os_top_length (void *o) { return OS_TOP_LENGTH (*(os_t *) o); }
void *ct_os_top_begin (void *o) { return OS_TOP_BEGIN (*(os_t *) o); }
void ct_os_shape (void *o, long *room, long *top_off, int *nseg)
{
  os_t *s = (os_t *) o; struct _os_segment *g; int n = 0;
  *room = s->os_boundary - s->os_top_object_free;
  *top_off = s->os_top_object_start - (char *) _OS_ALIGNED_ADDRESS (s->os_current_segment->os_segment_contest);
  for (g = s->os_current_segment; g != NULL; g = g->os_previous_segment) n++;
  *nseg = n;
}
void *ct_vlo_create (void *alloc, int len) { vlo_t *v = malloc (sizeof (vlo_t)); VLO_CREATE (*v, (YaepAllocator *) alloc, len); return v; }
void ct_vlo_delete (void *v) { VLO_DELETE (*(vlo_t *) v); free (v); }
void ct_vlo_add_byte (void *v, int b) { VLO_ADD_BYTE (*(vlo_t *) v, b); }
void ct_vlo_add_memory (void *v, const void *p, int len) { VLO_ADD_MEMORY (*(vlo_t *) v, p, len); }
void ct_vlo_add_string (void *v, const char *s) { VLO_ADD_STRING (*(vlo_t *) v, s); }
void ct_vlo_expand (void *v, int len) { VLO_EXPAND (*(vlo_t *) v, len); }
void ct_vlo_shorten (void *v, int n) { VLO_SHORTEN (*(vlo_t *) v, n); }
void ct_vlo_nullify (void *v) { VLO_NULLIFY (*(vlo_t *) v); }
void ct_vlo_tailor (void *v) { VLO_TAILOR (*(vlo_t *) v); }
long ct_vlo_length (void *v) { return VLO_LENGTH (*(vlo_t *) v); }
void *ct_vlo_begin (void *v) { return VLO_BEGIN (*(vlo_t *) v); }
long ct_vlo_capacity (void *v) { return ((vlo_t *) v)->vlo_boundary - ((vlo_t *) v)->vlo_start; }
