/* Uniform C-linkage view of the three containers (hash table, object stack, VLO), implemented
   twice: ct_c.c over the C macros/functions, ct_cxx.cpp over the C++ classes.  */
#ifndef CT_H
#define CT_H
#include <stddef.h>
#ifdef __cplusplus
extern "C" {
#endif
const char *ct_binding (void);
/* allocator behind every container: provided by the engine (tracks block sizes, can shrink in place) */
void *ctm_malloc (size_t n);
void *ctm_calloc (size_t n, size_t m);
void *ctm_realloc (void *p, size_t n);
void ctm_free (void *p);
void *ct_alloc_new (void);
void ct_alloc_del (void *a);
/* hash table over int keys 0..15; hashfn: 0 constant, 1 identity, 2 key mod 2, 3 key*7 */
void *ct_ht_create (void *alloc, int size, int hashfn);
void ct_ht_delete (void *t);
void ct_ht_empty (void *t);
int ct_ht_find (void *t, int key);		/* 1 found, 0 not found */
int ct_ht_insert (void *t, int key);		/* 0 inserted into an EMPTY reserved entry, 1 equal element already there, 2 reserved entry holds something else */
void ct_ht_remove (void *t, int key);
long ct_ht_size (void *t);
long ct_ht_count (void *t);
/* layout: out[i] = key, -1 EMPTY, -2 DELETED; *ne, *nd the raw counters; returns size */
int ct_ht_dump (void *t, int *out, int max, long *ne, long *nd);
/* object stack */
void *ct_os_create (void *alloc, int initial_len);
void ct_os_delete (void *o);
void ct_os_empty (void *o);
void ct_os_add_byte (void *o, int b);
void ct_os_add_memory (void *o, const void *p, int len);
void ct_os_add_string (void *o, const char *s);
void ct_os_expand (void *o, int len);
void ct_os_shorten (void *o, int n);
void ct_os_finish (void *o);
void ct_os_nullify (void *o);
long ct_os_top_length (void *o);
void *ct_os_top_begin (void *o);
/* structure: free space after the top object, offset of the top object in its segment, number of segments */
void ct_os_shape (void *o, long *room, long *top_off, int *nseg);
/* variable length object */
void *ct_vlo_create (void *alloc, int initial_len);
void ct_vlo_delete (void *v);
void ct_vlo_add_byte (void *v, int b);
void ct_vlo_add_memory (void *v, const void *p, int len);
void ct_vlo_add_string (void *v, const char *s);
void ct_vlo_expand (void *v, int len);
void ct_vlo_shorten (void *v, int n);
void ct_vlo_nullify (void *v);
void ct_vlo_tailor (void *v);
long ct_vlo_length (void *v);
void *ct_vlo_begin (void *v);
long ct_vlo_capacity (void *v);
#ifdef __cplusplus
}
#endif
#endif
