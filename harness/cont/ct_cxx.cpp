#include <stdlib.h>
#include <string.h>
/* compiled with -fno-access-control: the layout dump reads private members */
#include "allocate.h"
#include "hashtab.h"
#include "objstack.h"
#include "vlobject.h"
#include "ct.h"
static int keys[16] = { 0, 1, 2, 3, 4, 5, 6, 7, 8, 9, 10, 11, 12, 13, 14, 15 };
static unsigned h_const (hash_table_entry_t e) { (void) e; return 0; }
static unsigned h_id (hash_table_entry_t e) { return *(const int *) e; }
static unsigned h_mod2 (hash_table_entry_t e) { return *(const int *) e % 2; }
static unsigned h_mul (hash_table_entry_t e) { return *(const int *) e * 7u; }
static int k_eq (hash_table_entry_t a, hash_table_entry_t b) { return *(const int *) a == *(const int *) b; }
static unsigned (*hfn[]) (hash_table_entry_t) = { h_const, h_id, h_mod2, h_mul };
extern "C" {
const char *ct_binding (void) { return "cxx"; }
void *ct_alloc_new (void) { return yaep_alloc_new (ctm_malloc, ctm_calloc, ctm_realloc, ctm_free); }
void ct_alloc_del (void *a) { yaep_alloc_del ((YaepAllocator *) a); }
void *ct_ht_create (void *alloc, int size, int hashfn) { return new hash_table ((YaepAllocator *) alloc, size, hfn[hashfn], k_eq); }
void ct_ht_delete (void *t) { delete (hash_table *) t; }
void ct_ht_empty (void *t) { ((hash_table *) t)->empty (); }
int ct_ht_find (void *t, int key) { return *((hash_table *) t)->find_entry (&keys[key], 0) != NULL; }
int ct_ht_insert (void *t, int key)
{
  hash_table_entry_t *e = ((hash_table *) t)->find_entry (&keys[key], 1);
  if (*e == NULL) { *e = &keys[key]; return 0; }
  if (*e == (void *) 1) { *e = &keys[key]; return 2; }
  if (*(const int *) *e == key) return 1;
  return 2;
}
void ct_ht_remove (void *t, int key) { ((hash_table *) t)->remove_element_from_entry (&keys[key]); }
long ct_ht_size (void *t) { return ((hash_table *) t)->size (); }
long ct_ht_count (void *t) { return ((hash_table *) t)->elements_number (); }
int ct_ht_dump (void *t, int *out, int max, long *ne, long *nd)
{
  hash_table *h = (hash_table *) t; size_t i;
  *ne = h->number_of_elements; *nd = h->number_of_deleted_elements;
  for (i = 0; i < h->_size && (int) i < max; i++)
    out[i] = h->entries[i] == NULL ? -1 : h->entries[i] == (void *) 1 ? -2 : *(const int *) h->entries[i];
  return (int) h->_size;
}
void *ct_os_create (void *alloc, int len) { return new os ((YaepAllocator *) alloc, len); }
void ct_os_delete (void *o) { delete (os *) o; }
void ct_os_empty (void *o) { ((os *) o)->empty (); }
void ct_os_add_byte (void *o, int b) { ((os *) o)->top_add_byte (b); }
void ct_os_add_memory (void *o, const void *p, int len) { ((os *) o)->top_add_memory (p, len); }
void ct_os_add_string (void *o, const char *s) { ((os *) o)->top_add_string (s); }
void ct_os_expand (void *o, int len) { ((os *) o)->top_expand (len); }
void ct_os_shorten (void *o, int n) { ((os *) o)->top_shorten (n); }
void ct_os_finish (void *o) { ((os *) o)->top_finish (); }
void ct_os_nullify (void *o) { ((os *) o)->top_nullify (); }
long ct_os_top_length (void *o) { return ((os *) o)->top_length (); }
void *ct_os_top_begin (void *o) { return ((os *) o)->top_begin (); }
void ct_os_shape (void *o, long *room, long *top_off, int *nseg)
{
  os *s = (os *) o; _os_segment *g; int n = 0;
  *room = s->os_boundary - s->os_top_object_free;
  *top_off = s->os_top_object_start - (char *) _OS_ALIGNED_ADDRESS (s->os_current_segment->os_segment_contest);
  for (g = s->os_current_segment; g != NULL; g = g->os_previous_segment) n++;
  *nseg = n;
}
void *ct_vlo_create (void *alloc, int len) { return new vlo ((YaepAllocator *) alloc, len); }
void ct_vlo_delete (void *v) { delete (vlo *) v; }
void ct_vlo_add_byte (void *v, int b) { ((vlo *) v)->add_byte (b); }
void ct_vlo_add_memory (void *v, const void *p, int len) { ((vlo *) v)->add_memory (p, len); }
void ct_vlo_add_string (void *v, const char *s) { ((vlo *) v)->add_string (s); }
void ct_vlo_expand (void *v, int len) { ((vlo *) v)->expand (len); }
void ct_vlo_shorten (void *v, int n) { ((vlo *) v)->shorten (n); }
void ct_vlo_nullify (void *v) { ((vlo *) v)->nullify (); }
void ct_vlo_tailor (void *v) { ((vlo *) v)->tailor (); }
long ct_vlo_length (void *v) { return ((vlo *) v)->length (); }
void *ct_vlo_begin (void *v) { return ((vlo *) v)->begin (); }
long ct_vlo_capacity (void *v) { return ((vlo *) v)->vlo_boundary - ((vlo *) v)->vlo_start; }
}
