// Reference reader of the documented grammar-description syntax (doc/yaep.txt,
// "Function yaep_parse_grammar").  Hand-written recursive descent, three-valued:
//   VALID(grammar)  the text follows the documented syntax; `g' is the denoted grammar
//   INVALID         the text is not in the documented language
//   UNSPEC          the manual leaves the meaning open (escapes in character constants,
//                   a comment between an identifier and ':', `# name cost' without
//                   parentheses, coded + uncoded declaration of one name, ...);
//                   such texts only get the weak judgement "returns, documented code".
#pragma once
#include "gram.hpp"
#include <map>
#include <string>
#include <vector>
#include <cctype>
#include <set>
#include <cstring>

enum { D_VALID = 0, D_INVALID = 1, D_UNSPEC = 2 };

struct DescRes {
  int kind = D_VALID;
  std::string why;
  Gram g;
  int lines = 1;
  bool has_implicit = false;   // some TERM identifier without explicit code
  bool term_in_lhs = false;    // a terminal (or `error') on a left-hand side (YAEP_TERM_IN_RULE_LHS expected)
  bool repeated_diff_code = false;  // same name declared with two different codes (YAEP_REPEATED_TERM_CODE expected)
};

struct DescReader {
  const std::string &s;
  size_t p = 0;
  bool unspec = false; std::string unspec_why;
  bool invalid = false; std::string invalid_why;
  enum Tk { END, IDENT, TERMKW, NUMBER, CHARC, PUNCT, BAD };
  struct Tok { Tk k; std::string text; long num; char ch; bool comment_before; };
  std::vector<Tok> toks;

  explicit DescReader(const std::string &t) : s(t) {}
  void U(const std::string &w) { if (!unspec) { unspec = true; unspec_why = w; } }
  void I(const std::string &w) { if (!invalid) { invalid = true; invalid_why = w; } }

  void lex() {
    bool comment = false;
    while (p < s.size()) {
      unsigned char c = s[p];
      if (c == ' ' || c == '\t' || c == '\n') { p++; continue; }
      if (c == '\r' || c == '\f' || c == '\v') { U("white space other than blank, tab, newline"); p++; continue; }
      if (c == '/') {
        if (p + 1 < s.size() && s[p + 1] == '*') {
          size_t q = s.find("*/", p + 2);
          if (q == std::string::npos) { I("unfinished comment"); return; }
          p = q + 2; comment = true; continue;
        }
        I("stray /"); return;
      }
      Tok t{BAD, "", 0, 0, comment};
      comment = false;
      if (isalpha(c) || c == '_') {
        size_t q = p; while (q < s.size() && (isalnum((unsigned char) s[q]) || s[q] == '_')) q++;
        t.text = s.substr(p, q - p); p = q;
        t.k = t.text == "TERM" ? TERMKW : IDENT;
        if (c >= 0x80) U("non-ASCII letter");
      } else if (isdigit(c)) {
        size_t q = p; long v = 0; bool big = false;
        while (q < s.size() && isdigit((unsigned char) s[q])) { v = v * 10 + (s[q] - '0'); if (v > INT_MAX) { big = true; v = INT_MAX; } q++; }
        if (big) U("number does not fit int");
        t.k = NUMBER; t.num = v; p = q;
      } else if (c == '\'') {
        if (p + 1 >= s.size()) { I("unfinished character constant"); return; }
        unsigned char x = s[p + 1];
        if (p + 2 >= s.size() || s[p + 2] != '\'') {
          if (x == '\\') U("escape sequence in character constant"); else I("bad character constant");
          if (invalid) return;
          // skip a plausible escape so that lexing can continue for the UNSPEC verdict
          p += 2; while (p < s.size() && s[p] != '\'') p++; if (p < s.size()) p++;
          t.k = CHARC; t.ch = '?'; t.text = "'?'"; toks.push_back(t); continue;
        }
        if (x == '\\' || x == '\'' || x < 0x20 || x >= 0x7f) U("character constant with a non-plain character");
        t.k = CHARC; t.ch = (char) x; t.text = std::string("'") + (char) x + "'"; p += 3;
      } else if (strchr("=#|;-():", c)) {
        t.k = PUNCT; t.ch = (char) c; p++;
      } else { I(std::string("invalid input character")); return; }
      toks.push_back(t);
    }
    toks.push_back(Tok{END, "", 0, 0, comment});
  }

  size_t i = 0;
  const Tok &cur() const { return toks[i]; }
  bool isp(char c) const { return cur().k == PUNCT && cur().ch == c; }
  bool next_is_colon() const { return i + 1 < toks.size() && toks[i + 1].k == PUNCT && toks[i + 1].ch == ':'; }
  bool rule_start() const { return cur().k == IDENT && next_is_colon(); }

  struct TermDecl { std::string name; long code; };   // code -1 = implicit
  std::vector<TermDecl> decls;
  struct PRule { std::string lhs; std::vector<std::string> rhs; bool anode; std::string aname; long cost; bool has_tr; std::vector<long> tr; };
  std::vector<PRule> prules;

  void parse_terms() {
    i++;  // TERM
    while (cur().k == IDENT && !next_is_colon()) {
      TermDecl d{cur().text, -1};
      i++;
      if (isp('=')) { i++; if (cur().k != NUMBER) { I("number expected after ="); return; } d.code = cur().num; i++; }
      decls.push_back(d);
    }
    if (isp(';')) i++;
  }
  void parse_alt(const std::string &lhs) {
    PRule r; r.lhs = lhs; r.anode = false; r.cost = 0; r.has_tr = false;
    while ((cur().k == IDENT && !next_is_colon()) || cur().k == CHARC) {
      if (cur().k == CHARC) decls.push_back(TermDecl{cur().text, (long) (signed char) cur().ch});
      r.rhs.push_back(cur().text); i++;
    }
    if (isp('#')) {
      i++;
      if (cur().k == NUMBER) { r.has_tr = true; r.tr.push_back(cur().num); i++; }
      else if (isp('-')) { r.has_tr = true; r.tr.push_back(NILTR); i++; }
      else if (cur().k == IDENT && !next_is_colon()) {
        r.anode = true; r.aname = cur().text; r.cost = 1; r.has_tr = true; i++;
        if (cur().k == NUMBER) { r.cost = cur().num; i++; }
        if (isp('(')) {
          i++;
          while (cur().k == NUMBER || isp('-')) { r.tr.push_back(cur().k == NUMBER ? cur().num : (long) NILTR); i++; }
          if (!isp(')')) { I(") expected"); return; }
          i++;
        } else U("abstract node without parenthesised list");
      }
    }
    prules.push_back(r);
  }
  void parse_rule() {
    if (cur().comment_before && false) {}
    std::string lhs = cur().text;
    if (toks[i + 1].comment_before) U("comment between identifier and ':'");
    i += 2;
    parse_alt(lhs);
    while (!invalid && isp('|')) { i++; parse_alt(lhs); }
    if (isp(';')) i++;
  }

  DescRes run() {
    DescRes res;
    for (char c : s) if (c == '\n') res.lines++;
    lex();
    if (!invalid) {
      if (toks.size() == 1) I("empty description");
      while (!invalid && cur().k != END) {
        if (cur().k == TERMKW) parse_terms();
        else if (rule_start()) parse_rule();
        else I("unexpected token");
      }
    }
    if (invalid) { res.kind = D_INVALID; res.why = invalid_why; return res; }
    // ---- meaning
    // terminals: merge declarations by name
    std::map<std::string, size_t> seen;
    std::vector<TermDecl> uniq;
    for (auto &d : decls) {
      auto it = seen.find(d.name);
      if (it == seen.end()) { seen[d.name] = uniq.size(); uniq.push_back(d); continue; }
      TermDecl &u = uniq[it->second];
      if (u.code == -1 && d.code == -1) continue;
      if (u.code == -1 || d.code == -1) { U("one name declared with and without a code"); continue; }
      if (u.code != d.code) res.repeated_diff_code = true;
    }
    // implicit codes: distinct free codes from 256 upwards in order of appearance
    // ("the terminal code will [be] the next free code starting with 256": a code given explicitly to a terminal
    // declared EARLIER is certainly not free; whether a code given to a LATER terminal counts is left open, so the
    // text is specified only when both readings assign the same codes)
    {
      std::set<long> used_all, used_before;
      for (auto &u : uniq) if (u.code >= 0) used_all.insert(u.code);
      long next_all = 256, next_before = 256;
      for (auto &u : uniq) {
        if (u.code >= 0) { used_before.insert(u.code); continue; }
        res.has_implicit = true;
        while (used_all.count(next_all)) next_all++;
        while (used_before.count(next_before)) next_before++;
        if (next_all != next_before) U("an explicit code of a later terminal collides with the implicit numbering from 256");
        u.code = next_all; used_all.insert(next_all); used_before.insert(next_before); next_all++; next_before++;
      }
    }
    for (auto &u : uniq) {
      if (u.code < -1 || u.code > INT_MAX) { U("code outside int / negative character code"); }
      res.g.terms.push_back({u.name, (int) u.code});
    }
    std::map<std::string, int> tix; for (size_t k = 0; k < res.g.terms.size(); k++) tix[res.g.terms[k].first] = (int) k;
    // the reserved name error used in a rule is the error terminal; declared by TERM it is a defect (kept in terms so WF sees it)
    std::map<std::string, int> nix;
    auto nt = [&](const std::string &n) { auto it = nix.find(n); if (it != nix.end()) return it->second; int k = (int) res.g.nts.size(); nix[n] = k; res.g.nts.push_back(n); return k; };
    // two passes: lhs/rhs numbering in feeding order
    int T = (int) res.g.terms.size();
    for (auto &pr : prules) {
      Rule r;
      bool lhs_is_term = tix.count(pr.lhs) || pr.lhs == "error";
      if (lhs_is_term) res.term_in_lhs = true;
      r.lhs = nt(pr.lhs);
      for (auto &x : pr.rhs) {
        if (tix.count(x)) r.rhs.push_back(tix[x]);
        else if (x == "error") r.rhs.push_back(T);
        else r.rhs.push_back(T + 1 + nt(x));
      }
      r.anode = pr.anode; r.aname = pr.aname; r.cost = (int) std::min<long>(pr.cost, INT_MAX); r.has_transl = pr.has_tr;
      for (long t : pr.tr) r.transl.push_back((int) std::min<long>(t, INT_MAX));
      res.g.rules.push_back(r);
    }
    if (unspec) { res.kind = D_UNSPEC; res.why = unspec_why; }
    return res;
  }
};

static inline DescRes read_description(const std::string &text) { DescReader r(text); return r.run(); }
