// Engine `fault': for every scenario and every k up to the number of allocation requests of
// its fault-free run, the k-th request fails (YAEP_VERIF hook in allocate.c).  Expected:
// yaep_create_grammar returns NULL / the call returns YAEP_NO_MEMORY, no sanitizer report, no
// exit(), the object can be freed, and a bystander object defined before still parses.  C17.
#include "common.hpp"
#include "gram.hpp"
#include "obs.hpp"
#include "desc.hpp"

extern "C" { extern long yaep_verif_alloc_count, yaep_verif_fail_at, yaep_verif_live_blocks; extern void **yaep_verif_fail_bt; }
#include <sys/mman.h>
static void **g_bt;   // shared memory: return addresses of the failing request (survives a crash of the child)

struct Scenario { std::string name; int kind; /*0 create, 1 define text, 2 define callbacks, 3 parse*/ std::string text; std::vector<int> input; Flags fl; int am; int strict; };

static std::vector<Scenario> scenarios() {
  std::vector<Scenario> v;
  auto F = [](int la, int one, int cost, int rec, int match) { Flags f; f.la = la; f.one = one; f.cost = cost; f.rec = rec; f.match = match; return f; };
  std::string etf = "TERM; E : T # 0 | E '+' T # plus (0 2) ; T : F # 0 | T '*' F # mult (0 2) ; F : 'a' # 0 | '(' E ')' # 1 | '(' error ')' # perr () ;";
  std::string amb = "E : E '+' E # plus 2 (0 2) | E '*' E # mult 1 (0 2) | 'a' # 0 ;";
  std::string lst = "TERM x = 1000 y = 20001; S : S T # l (0 1) | T # 0 ; T : x y # t (0 1) | error y # e (1) ;";
  v.push_back({"create", 0, "", {}, Flags(), 0, 0});
  v.push_back({"define-text-good", 1, etf, {}, Flags(), 0, 1});
  v.push_back({"define-text-implicit-codes", 1, "TERM A B C; S : A B C # s (2 1 0) | # - ;", {}, Flags(), 0, 0});
  v.push_back({"define-text-syntax-error", 1, "E : E '+' # ;;; (", {}, Flags(), 0, 0});
  v.push_back({"define-text-loop", 1, "S : S # 0 | 'a' # 0 ;", {}, Flags(), 0, 0});
  v.push_back({"define-text-unreachable", 1, "S : 'a' ; B : 'b' ;", {}, Flags(), 0, 1});
  v.push_back({"define-callbacks-good", 2, lst, {}, Flags(), 0, 1});
  v.push_back({"define-callbacks-repeated-code", 2, "TERM x = 5 y = 5; S : x y ;", {}, Flags(), 0, 0});
  v.push_back({"parse-sentence", 3, etf, {'a', '+', 'a', '*', '(', 'a', ')'}, F(1, 1, 0, 1, 3), 0, 0});
  v.push_back({"parse-la0", 3, etf, {'a', '*', 'a'}, F(0, 1, 0, 1, 3), 0, 0});
  v.push_back({"parse-la2", 3, etf, {'a', '+', 'a', '+', 'a'}, F(2, 1, 0, 1, 3), 0, 0});
  v.push_back({"parse-recovery", 3, etf, {'a', '+', '(', '+', ')', '*', 'a'}, F(1, 1, 0, 1, 3), 0, 0});
  v.push_back({"parse-recovery-match1-allparses", 3, etf, {'(', '*', 'a', ')', '+', ')'}, F(1, 0, 0, 1, 1), 0, 0});
  v.push_back({"parse-norecovery-error", 3, etf, {'a', '+', '+'}, F(1, 1, 0, 0, 3), 0, 0});
  v.push_back({"parse-allparses-ambiguous", 3, amb, {'a', '+', 'a', '*', 'a', '+', 'a'}, F(1, 0, 0, 1, 3), 0, 0});
  v.push_back({"parse-cost-pruning-free", 3, amb, {'a', '+', 'a', '*', 'a'}, F(1, 0, 1, 1, 3), 0, 0});
  v.push_back({"parse-cost-one-nullfree", 3, amb, {'a', '*', 'a', '+', 'a'}, F(1, 1, 1, 1, 3), 1, 0});
  v.push_back({"parse-sparse-codes", 3, lst, {1000, 20001, 1000, 1000, 20001}, F(1, 0, 0, 1, 2), 0, 0});
  v.push_back({"parse-invalid-token", 3, etf, {'a', 'z'}, F(1, 1, 0, 1, 3), 0, 0});
  v.push_back({"parse-empty-input", 3, "S : A A # s (0 1) ; A : 'a' # 0 | # - ;", {}, F(1, 0, 0, 1, 3), 0, 0});
  // scenarios in which vectors grow (yaep_realloc): many symbols, many rules, a long input
  {
    std::string big = "TERM";
    for (int i = 0; i < 80; i++) big += " t" + std::to_string(i) + " = " + std::to_string(500 + i);
    big += ";\nS : S X # l (0 1) | X # 0 ;\nX :";
    for (int i = 0; i < 80; i++) big += std::string(i ? " |" : "") + " t" + std::to_string(i) + " # 0";
    big += " ;\n";
    v.push_back({"define-callbacks-80-terminals", 2, big, {}, Flags(), 0, 1});
    std::string many = "TERM;\n";
    for (int i = 0; i < 20; i++) many += "N" + std::to_string(i) + " : 'a' N" + std::to_string(i + 1) + " 'b' # n" + std::to_string(i) + " (0 1 2) | 'c' # 0 ;\n";
    many += "N20 : 'd' # 0 ;\n";
    v.push_back({"define-text-41-rules", 1, many, {}, Flags(), 0, 1});
    std::vector<int> longin; longin.push_back('x'); for (int i = 0; i < 6000; i++) { longin.push_back(','); longin.push_back('x'); }
    v.push_back({"parse-12001-tokens", 3, "L : L ',' 'x' # c (0 2) | 'x' # 0 ;", longin, F(1, 1, 0, 1, 3), 0, 0});
  }
  return v;
}

static Gram gram_of(const std::string &text) { DescRes d = read_description(text); if (d.kind == D_INVALID) machinery_error("scenario text invalid: " + text); return d.g; }

// performs the scenario's call on object y (already prepared); returns rc (for create: 0 ok / -1 NULL)
struct Prepared { void *y = NULL; };
static int run_call(const Scenario &sc, Prepared &p, ParseObs *po) {
  switch (sc.kind) {
  case 0: p.y = vy_create(); return p.y ? 0 : -1;
  case 1: return define_by_text(p.y, sc.text, sc.strict);
  case 2: { Gram g = gram_of(sc.text); return define_by_callbacks(p.y, g, sc.strict); }
  default: { ParseObs o = run_parse(p.y, sc.input, sc.am); if (po) *po = o; return o.rc; }
  }
}
static void prepare(const Scenario &sc, Prepared &p) {
  if (sc.kind == 0) return;
  p.y = vy_create();
  if (!p.y) machinery_error("create failed without fault");
  if (sc.kind == 3) { if (define_by_text(p.y, sc.text, 0) != 0) machinery_error("scenario grammar rejected: " + sc.text); apply_flags(p.y, sc.fl); }
}

static const char *BY_TEXT = "S : 'b' S # s (0 1) | 'c' # 0 ;";
static std::string bystander_obs(void *b) {
  std::vector<int> in{'b', 'b', 'c'};
  ParseObs o = run_parse(b, in, 0);
  std::string s = "rc=" + std::to_string(o.rc) + " errs=" + std::to_string(o.errs.size());
  if (o.rc == 0 && o.root) { DenRes d = denote(o.root, 3, true); for (auto &t : d.trees) s += " " + t; for (auto &x : d.shape) s += " SHAPE " + x; }
  return s;
}

static std::map<void *, std::string> g_symcache;
static std::string g_self;
static std::string site_signature() {
  // function names of the frames inside the library (allocate.c's own frames dropped), innermost first, at most 4
  std::vector<void *> need;
  for (int i = 0; i < 15 && g_bt[i]; i++) if (!g_symcache.count(g_bt[i])) need.push_back(g_bt[i]);
  if (!need.empty()) {
    std::string cmd = "addr2line -f -s -e " + g_self;
    for (void *p : need) { char b[32]; snprintf(b, sizeof b, " %p", (void *) ((char *) p - 1)); cmd += b; }
    FILE *f = popen(cmd.c_str(), "r");
    if (!f) machinery_error("addr2line not available");
    char fn[512], loc[512];
    for (void *p : need) { if (!fgets(fn, sizeof fn, f) || !fgets(loc, sizeof loc, f)) break; fn[strcspn(fn, "\n")] = 0; loc[strcspn(loc, ":\n")] = 0; g_symcache[p] = std::string(fn) + "@" + loc; }
    pclose(f);
  }
  std::string sig; int n = 0;
  for (int i = 0; i < 15 && g_bt[i] && n < 4; i++) {
    const std::string &s = g_symcache[g_bt[i]];
    std::string file = s.substr(s.find('@') + 1), fn = s.substr(0, s.find('@'));
    if (file == "allocate.c" || fn.rfind("yaep_verif", 0) == 0) continue;
    if (file != "yaep.c" && file != "sgramm.y" && file != "sgramm.c" && file != "hashtab.c" && file != "objstack.c" && file != "vlobject.c" && file != "objstack.h" && file != "vlobject.h") { if (n == 0) continue; else break; }
    sig += (n ? "<" : "") + fn; n++;
  }
  return sig.empty() ? "?" : sig;
}

int eng_fault_main(int argc, char **argv) {
  Args a(argc, argv, 2);
  g_bt = (void **) mmap(NULL, 4096, PROT_READ | PROT_WRITE, MAP_SHARED | MAP_ANONYMOUS, -1, 0);
  { char b[4096]; ssize_t k = readlink("/proc/self/exe", b, sizeof b - 1); b[k > 0 ? k : 0] = 0; g_self = b; }
  std::vector<Scenario> scs = scenarios();
  int si = 0, sn = 1; sscanf(a.get("shard", "0/1").c_str(), "%d/%d", &si, &sn);
  bool verbose = a.has("verbose");
  Report total;
  // known findings: the exact (scenario, k, kind) triples listed in the committed file
  std::map<std::string, std::string> known_cases;
  if (a.has("known-file")) {
    FILE *kf = fopen(a.get("known-file").c_str(), "r");
    if (kf) { char line[512]; while (fgets(line, sizeof line, kf)) { char sc[128], kind[64], id[32]; long k; char site[256]; (void) k; if (sscanf(line, "%31s scenario=%127s site=%255s kind=%63s", id, sc, site, kind) == 4) known_cases[std::string(sc) + " " + site + " " + kind] = id; } fclose(kf); }
  }
  std::set<std::string> enabled; for (auto &x : split(a.get("known", ""), ',')) enabled.insert(x);
  auto file_violation = [&](Report &r, const std::string &js0, const std::string &scname, long k, const std::string &kind) {
    std::string site = site_signature(); (void) k;
    std::string js = js0; js.insert(js.size() - 1, ",\"site\":" + jstr(site));
    auto it = known_cases.find(scname + " " + site + " " + kind);
    if (it != known_cases.end() && enabled.count(it->second)) { std::string j2 = js; j2.insert(j2.size() - 1, ",\"finding\":" + jstr(it->second)); r.knownf(j2); r.add("known_" + it->second); }
    else r.viol(js);
  };
  // env: which object the library touched last before the failing call - 0 the object of the call itself,
  // 1 the bystander (a parse on it), 2 an object that was created and freed again.  The library keeps
  // "current grammar" pointers in file-scope variables: the failure must be recorded in the right object.
  auto one_fault = [&](const Scenario &sc, long k, int env, Report &r, bool print) {
    // bystander first (its allocations are not counted)
    void *b = vy_create();
    if (!b || define_by_text(b, BY_TEXT, 0) != 0) machinery_error("bystander setup failed");
    std::string before = bystander_obs(b);
    Prepared p; prepare(sc, p);
    if (env == 1) { if (bystander_obs(b) != before) machinery_error("bystander not deterministic"); }
    else if (env == 2) { void *t = vy_create(); if (!t) machinery_error("create failed without fault"); vy_free(t); }
    int b_code = vy_error_code(b); std::string b_msg = vy_error_message(b);
    g_trk.reset();
    g_bt[0] = NULL; yaep_verif_fail_bt = g_bt;
    yaep_verif_fail_at = yaep_verif_alloc_count + k;
    ParseObs po;
    int rc = run_call(sc, p, &po);
    bool fired = yaep_verif_alloc_count >= yaep_verif_fail_at;
    yaep_verif_fail_at = 0;
    std::string cs = "scenario=" + sc.name + " k=" + std::to_string(k) + " env=" + std::to_string(env);
    auto V = [&](const std::string &kind, const std::string &detail) {
      std::string js = "{\"property\":\"C17\",\"kind\":" + jstr(kind) + ",\"engine\":\"fault\",\"case\":" + jstr(cs) + ",\"grammar\":" + jstr(sc.text) + ",\"detail\":" + jstr(detail) + "}";
      file_violation(r, js, sc.name, k, kind); if (print) printf("VIOLATION-DETAIL %s\n", js.c_str());
    };
    if (print) printf("%s: fired=%d rc=%d\n", cs.c_str(), fired, rc);
    r.add("fault_runs");
    if (fired) {
      r.add("faults_fired");
      if (sc.kind == 0) { if (rc != -1) V("create-not-null", "yaep_create_grammar returned an object although an allocation failed"); }
      else if (rc != YAEP_NO_MEMORY) V("wrong-code", "the call returned " + std::to_string(rc) + " although allocation request " + std::to_string(k) + " failed");
      else if (vy_error_code(p.y) != YAEP_NO_MEMORY) V("error-code", "yaep_error_code = " + std::to_string(vy_error_code(p.y)) + " after YAEP_NO_MEMORY");
    }
    // the object can still be freed, nothing of the library stays allocated for it
    if (p.y) vy_free(p.y);
    // the bystander is unaffected
    if (vy_error_code(b) != b_code || b_msg != vy_error_message(b)) V("bystander-error-state", "the error state of another object changed: code " + std::to_string(b_code) + " -> " + std::to_string(vy_error_code(b)) + ", message \"" + b_msg + "\" -> \"" + vy_error_message(b) + "\"");
    std::string after = bystander_obs(b);
    if (after != before) V("bystander-affected", "another object parses differently after the fault: [" + after + "] instead of [" + before + "]");
    vy_free(b);
    if (yaep_verif_live_blocks != 0) r.add("runs_with_blocks_left_after_fault");   // not part of the statement: counted only
  };
  if (a.has("case")) {
    char nm[128]; long k; int env = 0; if (sscanf(a.get("case").c_str(), "scenario=%127s k=%ld env=%d", nm, &k, &env) < 2) machinery_error("bad case");
    for (auto &sc : scs) if (sc.name == nm) { Report r; one_fault(sc, k, env, r, true); }
    return 0;
  }
  long idx = 0;
  for (auto &sc : scs) {
    // fault-free run: count the requests of the call
    long N = -1;
    {
      int pfd[2]; if (pipe(pfd)) machinery_error("pipe");
      Report tmp;
      ChildRes cr = run_child([&](Report &) { Prepared p; prepare(sc, p); long c0 = yaep_verif_alloc_count; run_call(sc, p, NULL); long n = yaep_verif_alloc_count - c0; ssize_t w = write(pfd[1], &n, sizeof n); (void) w; }, tmp, 60);
      close(pfd[1]);
      if (!cr.ok || read(pfd[0], &N, sizeof N) != (ssize_t) sizeof N) machinery_error("fault-free run of scenario " + sc.name + " failed: " + child_failure_text(cr) + " " + cr.err_tail);
      close(pfd[0]);
    }
    if (si == 0) { total.add("scenarios"); total.add("allocation_requests_fault_free", N); total.sample("{\"scenario\":" + jstr(sc.name) + ",\"allocation_requests\":" + std::to_string(N) + ",\"grammar\":" + jstr(sc.text) + "}"); }
    for (long k = 1; k <= N; k++) for (int env = 0; env < 3; env++) {
      if (env == 2 && sc.kind == 0) continue;   // nothing to interleave before the first object exists... env 1 already covers a foreign current grammar
      if ((idx++ % sn) != si) continue;
      Report tmp;
      ChildRes cr = run_child([&](Report &r) { one_fault(sc, k, env, r, false); }, tmp, 60);
      std::string cs = "scenario=" + sc.name + " k=" + std::to_string(k) + " env=" + std::to_string(env);
      if (cr.ok) { for (auto &kv : tmp.counters) total.counters[kv.first] += kv.second; for (auto &v : tmp.violations) total.violations.push_back(v); for (auto &v : tmp.known) total.known.push_back(v); }
      else {
        Report t2; ChildRes c2 = run_child([&](Report &r) { one_fault(sc, k, env, r, false); }, t2, 120);
        if (c2.ok) machinery_error("fault case failed once and passed on replay: " + cs);
        total.add("fault_runs"); total.add("faults_fired");
        std::string kind = c2.timeout ? "hang" : "crash";
        file_violation(total, "{\"property\":\"C17\",\"kind\":" + jstr(kind) + ",\"engine\":\"fault\",\"case\":" + jstr(cs) + ",\"grammar\":" + jstr(sc.text) + ",\"detail\":" + jstr(child_failure_text(c2) + "; stderr: " + c2.err_tail.substr(0, 1500)) + "}", sc.name, k, kind);
      }
    }
  }
  total.write_json(a.get("out", "/dev/stdout"), ",\n \"deadline_hit\": false");
  return 0;
}
