/* C binding: straight calls into libyaep.  Compiled as C.  */
#include <stddef.h>
#include "yaep.h"
#include "hashtab.h"
#include "bind.h"
const char *vy_binding (void) { return "c"; }
void *vy_create (void) { return yaep_create_grammar (); }
void vy_free (void *g) { yaep_free_grammar ((struct grammar *) g); }
int vy_error_code (void *g) { return yaep_error_code ((struct grammar *) g); }
const char *vy_error_message (void *g) { return yaep_error_message ((struct grammar *) g); }
int vy_read_grammar (void *g, int s, vy_read_terminal_t rt, vy_read_rule_t rr)
{ return yaep_read_grammar ((struct grammar *) g, s, rt, rr); }
int vy_parse_grammar (void *g, int s, const char *d)
{ return yaep_parse_grammar ((struct grammar *) g, s, d); }
int vy_set_lookahead_level (void *g, int v) { return yaep_set_lookahead_level ((struct grammar *) g, v); }
int vy_set_debug_level (void *g, int v) { return yaep_set_debug_level ((struct grammar *) g, v); }
int vy_set_one_parse_flag (void *g, int v) { return yaep_set_one_parse_flag ((struct grammar *) g, v); }
int vy_set_cost_flag (void *g, int v) { return yaep_set_cost_flag ((struct grammar *) g, v); }
int vy_set_error_recovery_flag (void *g, int v) { return yaep_set_error_recovery_flag ((struct grammar *) g, v); }
int vy_set_recovery_match (void *g, int v) { return yaep_set_recovery_match ((struct grammar *) g, v); }
int vy_parse (void *g, vy_read_token_t rt, vy_syntax_error_t se, vy_alloc_t a, vy_free_t f,
	      struct yaep_tree_node **root, int *amb)
{ return yaep_parse ((struct grammar *) g, rt, se, a, f, root, amb); }
void vy_free_tree (struct yaep_tree_node *root, vy_free_t f, vy_termcb_t cb)
{ yaep_free_tree (root, f, cb); }
long vy_all_searches (void) { return (long) (unsigned) get_all_searches (); }
long vy_all_collisions (void) { return (long) (unsigned) get_all_collisions (); }
