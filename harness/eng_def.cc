// Engine `def': callback-level grammar descriptions, including defective ones, enumerated as
// a product over small domains; verdict of yaep_read_grammar compared with the reference
// well-formedness model WF (documented defects, appendix A.8 of DESIGN.md).  Serves C10.
#include "common.hpp"
#include "bind.h"
#include "yaep.h"
#include <set>
#include <map>

struct RawRule { std::string lhs; std::vector<std::string> rhs; bool anode; std::string aname; int cost; bool has_tr; std::vector<int> tr; };
struct RawDesc { std::vector<std::pair<std::string, int>> terms; std::vector<RawRule> rules; };

static std::string raw_to_string(const RawDesc &d) {
  std::string s = "TERMS[";
  for (auto &t : d.terms) s += " " + t.first + "=" + std::to_string(t.second);
  s += " ] RULES[";
  for (auto &r : d.rules) {
    s += " " + r.lhs + " :";
    for (auto &x : r.rhs) s += " " + x;
    s += " #";
    if (r.anode) s += " " + r.aname + " cost=" + std::to_string(r.cost);
    else if (r.cost) s += " (no anode, cost=" + std::to_string(r.cost) + ")";
    if (!r.has_tr) s += " NULL"; else { s += " ("; for (int t : r.tr) s += (t == INT_MAX ? std::string(" -") : " " + std::to_string(t)); s += " )"; }
    s += " ;";
  }
  return s + " ]";
}

// ---------------------------------------------------------------- reference WF
static std::set<int> WF(const RawDesc &d, int strict) {
  std::set<int> out;
  std::set<std::string> tnames; std::set<int> tcodes;
  for (auto &t : d.terms) {
    if (t.second < 0) out.insert(YAEP_NEGATIVE_TERM_CODE);
    if (!tnames.insert(t.first).second) out.insert(YAEP_REPEATED_TERM_DECL);
    if (t.second >= 0 && !tcodes.insert(t.second).second) out.insert(YAEP_REPEATED_TERM_CODE);
    if (t.first == "error" || t.first == "$S" || t.first == "$eof") out.insert(YAEP_FIXED_NAME_USAGE);
  }
  if (d.rules.empty()) out.insert(YAEP_NO_RULES);
  for (auto &r : d.rules) {
    if (r.lhs == "$S" || r.lhs == "$eof") out.insert(YAEP_FIXED_NAME_USAGE);
    if (tnames.count(r.lhs) || r.lhs == "error") out.insert(YAEP_TERM_IN_RULE_LHS);
    for (auto &x : r.rhs) if (x == "$S" || x == "$eof") out.insert(YAEP_FIXED_NAME_USAGE);
    if (!r.anode && r.has_tr && r.tr.size() >= 2) out.insert(YAEP_INCORRECT_TRANSLATION);
    if (r.anode && r.cost < 0) out.insert(YAEP_NEGATIVE_COST);
    if (r.has_tr) {
      std::set<int> seen;
      for (int t : r.tr) {
        if (t == INT_MAX) continue;
        if (t >= (int) r.rhs.size()) out.insert(YAEP_INCORRECT_SYMBOL_NUMBER);
        else if (!seen.insert(t).second) out.insert(YAEP_REPEATED_SYMBOL_NUMBER);
      }
    }
  }
  if (!out.empty()) return out;
  // the description is structurally sane: resolve symbols and judge the grammar itself
  std::map<std::string, int> nt; std::vector<std::string> nts;
  auto isterm = [&](const std::string &s) { return tnames.count(s) || s == "error"; };
  auto ntid = [&](const std::string &s) { auto it = nt.find(s); if (it != nt.end()) return it->second; int k = (int) nts.size(); nt[s] = k; nts.push_back(s); return k; };
  struct R { int lhs; std::vector<int> rhs; };   // rhs: -1 terminal, else nonterminal id
  std::vector<R> rs;
  for (auto &r : d.rules) { R q; q.lhs = ntid(r.lhs); for (auto &x : r.rhs) q.rhs.push_back(isterm(x) ? -1 : ntid(x)); rs.push_back(q); }
  int N = (int) nts.size();
  std::vector<char> nullable(N, 0), prod(N, 0), reach(N, 0);
  bool ch = true;
  while (ch) { ch = false; for (auto &r : rs) { bool e = true, p = true; for (int x : r.rhs) { if (x < 0) e = false; else { e = e && nullable[x]; p = p && prod[x]; } } if (e && !nullable[r.lhs]) { nullable[r.lhs] = 1; ch = true; } if (p && !prod[r.lhs]) { prod[r.lhs] = 1; ch = true; } } }
  reach[rs[0].lhs] = 1; ch = true;
  while (ch) { ch = false; for (auto &r : rs) if (reach[r.lhs]) for (int x : r.rhs) if (x >= 0 && !reach[x]) { reach[x] = 1; ch = true; } }
  std::vector<std::vector<char>> g(N, std::vector<char>(N, 0));
  for (auto &r : rs) for (size_t i = 0; i < r.rhs.size(); i++) { if (r.rhs[i] < 0) continue; bool ok = true; for (size_t k = 0; k < r.rhs.size(); k++) if (k != i && (r.rhs[k] < 0 || !nullable[r.rhs[k]])) ok = false; if (ok) g[r.lhs][r.rhs[i]] = 1; }
  for (int k = 0; k < N; k++) for (int i = 0; i < N; i++) for (int j = 0; j < N; j++) if (g[i][k] && g[k][j]) g[i][j] = 1;
  for (int i = 0; i < N; i++) if (g[i][i]) out.insert(YAEP_LOOP_NONTERM);
  if (strict) { for (int i = 0; i < N; i++) { if (!prod[i]) out.insert(YAEP_NONTERM_DERIVATION); if (!reach[i]) out.insert(YAEP_UNACCESSIBLE_NONTERM); } }
  else if (!prod[rs[0].lhs]) out.insert(YAEP_NONTERM_DERIVATION);
  return out;
}

// ---------------------------------------------------------------- feeding yaep
static const RawDesc *g_rd; static size_t g_ti, g_ri;
static std::vector<void *> g_blocks;
static char *rdup(const std::string &s) { char *p = (char *) malloc(s.size() + 1); memcpy(p, s.c_str(), s.size() + 1); g_blocks.push_back(p); return p; }
static const char *raw_read_terminal(int *code) { if (g_ti >= g_rd->terms.size()) return NULL; auto &t = g_rd->terms[g_ti++]; *code = t.second; return rdup(t.first); }
static const char *raw_read_rule(const char ***rhs, const char **anode, int *cost, int **transl) {
  if (g_ri >= g_rd->rules.size()) return NULL;
  const RawRule &r = g_rd->rules[g_ri++];
  const char **a = (const char **) malloc(sizeof(char *) * (r.rhs.size() + 1)); g_blocks.push_back(a);
  for (size_t i = 0; i < r.rhs.size(); i++) a[i] = rdup(r.rhs[i]);
  a[r.rhs.size()] = NULL; *rhs = a;
  *anode = r.anode ? rdup(r.aname) : NULL; *cost = r.cost;
  if (r.has_tr) { int *t = (int *) malloc(sizeof(int) * (r.tr.size() + 1)); g_blocks.push_back(t); for (size_t i = 0; i < r.tr.size(); i++) t[i] = r.tr[i]; t[r.tr.size()] = -1; *transl = t; } else *transl = NULL;
  return rdup(r.lhs);
}
static int raw_define(void *y, const RawDesc &d, int strict) {
  g_rd = &d; g_ti = g_ri = 0;
  int rc = vy_read_grammar(y, strict, raw_read_terminal, raw_read_rule);
  for (void *p : g_blocks) free(p);
  g_blocks.clear();
  return rc;
}

static int tk_pos; static const int *tk_in; static int tk_n; static int tk_errs;
static int tk_read(void **attr) { *attr = NULL; return tk_pos < tk_n ? tk_in[tk_pos++] : -1; }
static void tk_err(int, void *, int, void *, int, void *) { tk_errs++; }
static int quick_parse(void *y, const int *in, int n, struct yaep_tree_node **root) { int amb; tk_in = in; tk_n = n; tk_pos = 0; tk_errs = 0; return vy_parse(y, tk_read, tk_err, NULL, NULL, root, &amb); }

static const char *code_name(int c) {
  static const char *n[] = {"0", "NO_MEMORY", "UNDEFINED_OR_BAD_GRAMMAR", "DESCRIPTION_SYNTAX_ERROR", "FIXED_NAME_USAGE", "REPEATED_TERM_DECL", "NEGATIVE_TERM_CODE", "REPEATED_TERM_CODE", "NO_RULES", "TERM_IN_RULE_LHS", "INCORRECT_TRANSLATION", "NEGATIVE_COST", "INCORRECT_SYMBOL_NUMBER", "REPEATED_SYMBOL_NUMBER", "UNACCESSIBLE_NONTERM", "NONTERM_DERIVATION", "LOOP_NONTERM", "INVALID_TOKEN_CODE"};
  return c >= 0 && c <= 17 ? n[c] : "?";
}

// ---------------------------------------------------------------- domains
struct Domains {
  std::vector<std::vector<std::pair<std::string, int>>> termlists;
  std::vector<RawRule> rules1, rules2a, rules2b;   // full menu for single-rule descriptions, reduced menus for (first, second) rule of a pair
};
// mode 0: full menu; 1: first rule of a pair; 2: second rule of a pair (quick); 3: reduced translation menu, all shapes (thorough pairs, second rule); 4: as 3 without the plain `# 0' form (thorough pairs, first rule)
static std::vector<RawRule> rule_menu(int mode) {
  std::vector<RawRule> out;
  std::vector<std::string> lhss{"S", "A", "a", "error", "$S"};
  if (mode == 1) lhss = {"S", "A", "a", "$S"};
  std::vector<std::string> syms{"a", "b", "S", "A", "error", "$eof"};
  std::vector<std::vector<std::string>> rhss{{}};
  for (auto &x : syms) rhss.push_back({x});
  if (mode != 2) { for (auto &x : syms) for (auto &y : syms) rhss.push_back({x, y}); }
  else { rhss.push_back({"S", "A"}); rhss.push_back({"A", "S"}); rhss.push_back({"A", "$S"}); rhss.push_back({"a", "A"}); rhss.push_back({"A", "A"}); }
  struct Tr { bool anode; int cost; bool has; std::vector<int> tr; };
  std::vector<Tr> trs;
  if (mode == 0) trs = {{false, 0, false, {}}, {false, 0, true, {}}, {false, 0, true, {0}}, {false, 0, true, {1}}, {false, 0, true, {0, 1}}, {false, 0, true, {2}}, {false, 0, true, {INT_MAX}}, {false, -1, true, {0}},
                   {true, 1, true, {0}}, {true, 0, true, {0, 1}}, {true, 1, true, {1, 0}}, {true, 1, true, {}}, {true, -1, true, {0}}, {true, 1, true, {0, 0}}, {true, 1, true, {0, INT_MAX}}, {true, 1, true, {2}}, {true, 2, false, {}}};
  else if (mode == 1) trs = {{false, 0, false, {}}, {true, 1, true, {0}}};
  else if (mode == 4) trs = {{false, 0, false, {}}, {true, 1, true, {0}}, {true, 1, true, {1, 0}}};
  else trs = {{false, 0, false, {}}, {false, 0, true, {0}}, {true, 1, true, {0}}, {true, 1, true, {1, 0}}};
  for (auto &l : lhss) for (auto &r : rhss) for (auto &t : trs) out.push_back(RawRule{l, r, t.anode, "n", t.cost, t.has, t.tr});
  return out;
}
static Domains make_domains(bool thorough) {
  Domains D;
  std::vector<std::string> names{"a", "b", "error", "$S", "$eof"};
  std::vector<int> codes{-1, 0, 1, 300};
  D.termlists.push_back({});
  if (thorough) {
    for (auto &n : names) for (int c : codes) D.termlists.push_back({{n, c}});
    for (auto &n1 : names) for (int c1 : codes) for (auto &n2 : names) for (int c2 : codes) D.termlists.push_back({{n1, c1}, {n2, c2}});
  } else {
    for (auto &n : names) for (int c : codes) D.termlists.push_back({{n, c}});
    D.termlists.push_back({{"a", 0}, {"b", 1}}); D.termlists.push_back({{"a", 0}, {"b", 0}}); D.termlists.push_back({{"a", 0}, {"a", 1}}); D.termlists.push_back({{"a", 1}, {"b", -1}});
    D.termlists.push_back({{"a", 0}, {"error", 5}}); D.termlists.push_back({{"b", 7}, {"a", 300}}); D.termlists.push_back({{"a", 0}, {"$eof", 1}});
  }
  D.rules1 = rule_menu(0);
  D.rules2a = rule_menu(thorough ? 4 : 1);
  D.rules2b = rule_menu(thorough ? 3 : 2);
  return D;
}

struct DefEngine {
  bool thorough = false, verbose = false;
  Domains D;
  std::set<std::string> known;
  RawDesc good;
  DefEngine() {
    good.terms = {{"x", 10}, {"y", 11}};
    good.rules = {RawRule{"G", {"x", "H"}, true, "g", 1, true, {0, 1}}, RawRule{"H", {"y"}, false, "", 0, true, {0}}};
  }
  // number of (termlist, rule tuple) pairs; index space is [0, total)
  long n_rule_tuples() const { return 1 + (long) D.rules1.size() + (long) D.rules2a.size() * (long) D.rules2b.size(); }
  long total() const { return (long) D.termlists.size() * n_rule_tuples(); }
  RawDesc desc_at(long idx) const {
    RawDesc d;
    long nt = n_rule_tuples();
    d.terms = D.termlists[idx / nt];
    long r = idx % nt;
    if (r == 0) return d;
    r--;
    if (r < (long) D.rules1.size()) { d.rules.push_back(D.rules1[r]); return d; }
    r -= (long) D.rules1.size();
    d.rules.push_back(D.rules2a[r / (long) D.rules2b.size()]);
    d.rules.push_back(D.rules2b[r % (long) D.rules2b.size()]);
    return d;
  }
  void check(long idx, Report &rep) {
    RawDesc d = desc_at(idx);
    for (int strict = 0; strict < 2; strict++) {
      std::set<int> wf = WF(d, strict);
      void *y = vy_create();
      if (!y) machinery_error("vy_create failed");
      int rc = raw_define(y, d, strict);
      rep.add("definitions");
      rep.add(rc == 0 ? "accepted" : "rejected");
      rep.add(std::string("rc_") + code_name(rc));
      { unsigned long h = 1469598103934665603ULL; for (char c : std::to_string(idx) + "/" + std::to_string(strict) + "/" + std::to_string(rc) + vy_error_message(y)) h = (h ^ (unsigned char) c) * 1099511628211ULL; rep.counters["dg:" + std::to_string(idx / 50000)] += (long) (h >> 36); }
      std::string caseaddr = "idx=" + std::to_string(idx) + " strict=" + std::to_string(strict);
      auto V = [&](const std::string &kind, const std::string &detail) {
        std::string js = "{\"property\":\"C10\",\"kind\":" + jstr(kind) + ",\"engine\":\"def\",\"case\":" + jstr(caseaddr) + ",\"grammar\":" + jstr(raw_to_string(d)) + ",\"detail\":" + jstr(detail) + "}";
        std::string kf = classify(kind, d, rc, wf);
        if (!kf.empty()) { js.insert(js.size() - 1, ",\"finding\":" + jstr(kf)); rep.knownf(js); rep.add("known_" + kf); } else rep.viol(js);
        if (verbose) printf("VIOLATION-DETAIL %s\n", js.c_str());
      };
      std::string wfs; for (int c : wf) wfs += std::string(wfs.empty() ? "" : ",") + code_name(c);
      if (verbose) printf("case %s\n  %s\n  rc=%d (%s) message=\"%s\"  reference defects={%s}\n", caseaddr.c_str(), raw_to_string(d).c_str(), rc, code_name(rc), vy_error_message(y), wfs.c_str());
      if (rc == 0 && !wf.empty()) V("accepted-defective", "yaep_read_grammar returned 0 although the description has the documented defect(s) {" + wfs + "}");
      if (rc != 0 && wf.empty()) V("rejected-wellformed", std::string("yaep_read_grammar returned ") + code_name(rc) + " (\"" + vy_error_message(y) + "\") but the description has none of the documented defects");
      if (rc != 0 && !wf.empty() && !wf.count(rc)) V("wrong-code", std::string("returned ") + code_name(rc) + " (\"" + vy_error_message(y) + "\") but that defect is not present; present: {" + wfs + "}");
      if (rc != 0) {
        if (vy_error_code(y) != rc) V("error-code-mismatch", "yaep_error_code = " + std::to_string(vy_error_code(y)) + " after a call that returned " + std::to_string(rc));
        if (strlen(vy_error_message(y)) == 0) V("empty-message", "empty error message after a failed definition");
        static const int in[] = {10, 11};
        struct yaep_tree_node *root = NULL;
        int prc = quick_parse(y, in, 2, &root);
        if (prc != YAEP_UNDEFINED_OR_BAD_GRAMMAR) V("parse-after-failed-definition", "yaep_parse returned " + std::to_string(prc) + " instead of YAEP_UNDEFINED_OR_BAD_GRAMMAR after a failed definition");
        // a later successful definition behaves as on a fresh object
        int rc2 = raw_define(y, good, 1);
        if (rc2 != 0) V("good-definition-after-failure", std::string("a well-formed grammar is rejected (") + code_name(rc2) + ": \"" + vy_error_message(y) + "\") when defined after the failed definition");
        else {
          prc = quick_parse(y, in, 2, &root);
          if (prc != 0 || root == NULL || tk_errs) V("parse-after-redefinition", "sentence not parsed after redefinition: rc=" + std::to_string(prc));
          if (root) vy_free_tree(root, NULL, NULL);
        }
        rep.add("nontrivial_rejections");
      }
      vy_free(y);
      if (rep.samples.size() < 4 && rc != 0 && idx % 977 == 3) rep.sample("{\"description\":" + jstr(raw_to_string(d)) + ",\"strict\":" + std::to_string(strict) + ",\"rc\":" + jstr(code_name(rc)) + ",\"reference_defects\":" + jstr(wfs) + "}");
    }
  }
  // D13: $S / $eof used in a rule after the first one
  std::string classify(const std::string &kind, const RawDesc &d, int rc, const std::set<int> &wf) const {
    (void) rc;
    if (known.count("D13") && (kind == "accepted-defective" || kind == "wrong-code") && wf.count(YAEP_FIXED_NAME_USAGE)) {
      // reserved name occurs only in positions yaep does not look at: any rhs, or lhs of a rule after the first
      bool in_terms = false; for (auto &t : d.terms) if (t.first == "error" || t.first == "$S" || t.first == "$eof") in_terms = true;
      bool first_lhs = !d.rules.empty() && (d.rules[0].lhs == "$S" || d.rules[0].lhs == "$eof");
      if (!in_terms && !first_lhs) return "D13";
    }
    return "";
  }
};

int eng_def_main(int argc, char **argv) {
  Args a(argc, argv, 2);
  DefEngine E;
  E.thorough = a.has("thorough"); E.verbose = a.has("verbose");
  E.D = make_domains(E.thorough);
  for (auto &s : split(a.get("known", ""), ',')) E.known.insert(s);
  if (a.has("count")) { printf("%ld\n", E.total()); return 0; }
  Report total;
  if (a.has("case")) {
    long idx = -1; sscanf(a.get("case").c_str(), "idx=%ld", &idx);
    E.check(idx, total);
    return 0;
  }
  int si = 0, sn = 1; sscanf(a.get("shard", "0/1").c_str(), "%d/%d", &si, &sn);
  double deadline = a.has("deadline") ? now_s() + a.geti("deadline", 0) : 0;
  long N = E.total(), B = 20000; bool hit = false;
  long stride = a.geti("sample", 1);
  std::vector<long> starts;
  for (long s = 0; s < N; s += B) if ((s / B) % sn == si) starts.push_back(s);
  for (long s : starts) {
    if (deadline > 0 && now_s() > deadline) { hit = true; break; }
    long e = std::min(N, s + B);
    ChildRes cr = run_child([&](Report &r) { for (long i = s; i < e; i++) if (i % stride == 0) E.check(i, r); }, total, 600);
    if (!cr.ok) {
      // isolate by bisection over the index range
      long lo = s, hi = e;
      while (hi - lo > 1) {
        long mid = (lo + hi) / 2; Report tmp;
        ChildRes c1 = run_child([&](Report &r) { for (long i = lo; i < mid; i++) E.check(i, r); }, tmp, 600);
        if (!c1.ok) hi = mid; else { for (auto &kv : tmp.counters) total.counters[kv.first] += kv.second; for (auto &v : tmp.violations) total.violations.push_back(v); lo = mid; }
      }
      Report t1, t2;
      ChildRes c1 = run_child([&](Report &r) { E.check(lo, r); }, t1, 60), c2 = run_child([&](Report &r) { E.check(lo, r); }, t2, 60);
      if (c1.ok != c2.ok) machinery_error("nondeterministic replay of def case idx=" + std::to_string(lo));
      if (c1.ok) machinery_error("def batch died but the isolated case passes: idx=" + std::to_string(lo) + " " + child_failure_text(cr) + " " + cr.err_tail);
      total.viol("{\"property\":" + jstr(a.get("prop", "C10")) + ",\"kind\":\"crash\",\"engine\":\"def\",\"case\":" + jstr("idx=" + std::to_string(lo)) + ",\"grammar\":" + jstr(raw_to_string(E.desc_at(lo))) + ",\"detail\":" + jstr(child_failure_text(c2) + "; stderr: " + c2.err_tail.substr(0, 1500)) + "}");
      // continue after the failing case
      Report rest;
      run_child([&](Report &r) { for (long i = lo + 1; i < e; i++) E.check(i, r); }, total, 600);
    }
  }
  char extra[128]; snprintf(extra, sizeof extra, ",\n \"deadline_hit\": %s, \"space\": %ld", hit ? "true" : "false", N);
  total.write_json(a.get("out", "/dev/stdout"), extra);
  return 0;
}
