#include <cstdio>
#include <cstring>
#include <string>
int eng_gram_main(int argc, char **argv);
int eng_def_main(int argc, char **argv);
int eng_hist_main(int argc, char **argv);
int eng_txt_main(int argc, char **argv);
int eng_fault_main(int argc, char **argv);
int eng_scale_main(int argc, char **argv);
int main(int argc, char **argv) {
  if (argc < 2) { fprintf(stderr, "usage: vh <engine> [options]\n"); return 2; }
  std::string e = argv[1];
  if (e == "gram") return eng_gram_main(argc, argv);
  if (e == "def") return eng_def_main(argc, argv);
  if (e == "hist") return eng_hist_main(argc, argv);
  if (e == "txt") return eng_txt_main(argc, argv);
  if (e == "fault") return eng_fault_main(argc, argv);
  if (e == "scale") return eng_scale_main(argc, argv);
  fprintf(stderr, "unknown engine %s\n", argv[1]);
  return 2;
}
