// Known findings: reference-side class predicates.  A violating case is attributed to a
// finding only if (a) the finding is listed with status "known" in known_findings.json
// (the driver passes the enabled ids), (b) the violation kind matches and (c) the
// predicate below - computed from the grammar, the input and the flags by the reference
// model, never from yaep's behaviour - holds.  Everything else stays a VIOLATION.
#pragma once
#include "gram.hpp"
#include "ref.hpp"
#include "obs.hpp"
#include <set>
#include <string>

static inline std::string features(Ref &R) {
  DerivFacts F(R);
  std::string s;
  if (F.untranslated_multi_origin()) s += "F1 ";
  if (F.shared_anode_multi_split()) s += "F2 ";
  return s;
}
static inline std::string classify_known(const std::set<std::string> &enabled, const std::string &prop, const std::string &kind,
                                         const Gram &g, const std::vector<int> &w, const Flags &f, Ref &R, const ParseObs &o) {
  (void) g; (void) w; (void) f; (void) o;
  if ((prop == "C03" || prop == "C04") && (kind == "missing-translation" || kind == "missing-minimal" || kind == "root-cost-not-min" || kind == "non-minimal-tree")) {
    DerivFacts F(R);
    if (enabled.count("D24") && F.untranslated_multi_origin()) return "D24";
    if (enabled.count("D23") && F.shared_anode_multi_split()) return "D23";
  }
  return "";
}
static inline std::string classify_known_crash(const std::set<std::string> &enabled, const std::string &prop,
                                               const Gram &g, const std::vector<int> &w, const Flags &f) {
  (void) enabled; (void) prop; (void) g; (void) w; (void) f;
  return "";
}
