// Known findings: reference-side class predicates.  A violating case is attributed to a
// finding only if (a) the finding is listed with status "known" in known_findings.json
// (the driver passes the enabled ids), (b) the violation kind matches and (c) the
// predicate below - computed from the grammar, the input and the flags by the reference
// model, never from yaep's behaviour - holds.  Everything else stays a VIOLATION.
#pragma once
#include "gram.hpp"
#include "ref.hpp"
#include "obs.hpp"
#include <set>
#include <string>

static inline std::string classify_known(const std::set<std::string> &enabled, const std::string &prop, const std::string &kind,
                                         const Gram &g, const std::vector<int> &w, const Flags &f, Ref &R, const ParseObs &o) {
  (void) enabled; (void) prop; (void) kind; (void) g; (void) w; (void) f; (void) R; (void) o;
  return "";
}
static inline std::string classify_known_crash(const std::set<std::string> &enabled, const std::string &prop,
                                               const Gram &g, const std::vector<int> &w, const Flags &f) {
  (void) enabled; (void) prop; (void) g; (void) w; (void) f;
  return "";
}
