// Engine `scale': the finite grid {deterministic left-recursive grammars} x {lengths 1k*2^j} x
// {lookahead 0,1,2}; work of yaep_parse in machine-independent units (bytes and requests asked
// from the allocator - YAEP_VERIF hook -, hash table searches and collisions - exported by
// hashtab.c -, and the set statistics printed at debug level 1); oracle: doubling ratios and
// "identical sets are found again" (constant number of unique sets, goto successes ~ n).  C18.
#include "common.hpp"
#include "gram.hpp"
#include "obs.hpp"
#include "desc.hpp"
#include <fcntl.h>

extern "C" { extern long yaep_verif_alloc_count, yaep_verif_alloc_bytes; }

struct ScaleSpec { std::string name, text, unit, first; bool nested; };
struct Work { long bytes, reqs, searches, collisions, usets, ucores, triples, gotos; int rc; size_t errs; };

static std::vector<int> g_in; static size_t g_pos;
static std::vector<int> *g_ansic;
static int rd(void **a) { *a = NULL; return g_pos < g_in.size() ? g_in[g_pos++] : -1; }
static size_t g_nerr;
static void se(int, void *, int, void *, int, void *) { g_nerr++; }
static void *bump_alloc(int n) { return malloc(n); }

static Work measure(const ScaleSpec &sp, long n, int la, int mode) {
  void *y = vy_create();
  if (define_by_text(y, sp.text, 1) != 0) machinery_error("scale grammar rejected: " + sp.text);
  // mode 0: one parse; 1: all parses requested (the grammars are unambiguous); 2: one parse with the cost flag
  vy_set_lookahead_level(y, la); vy_set_one_parse_flag(y, mode != 1); vy_set_cost_flag(y, mode == 2); vy_set_debug_level(y, 1);
  g_in.clear();
  if (sp.unit.empty()) { while ((long) g_in.size() < n) g_in.insert(g_in.end(), g_ansic->begin(), g_ansic->end()); }
  else {
    for (char c : sp.first) g_in.push_back((unsigned char) c);
    while ((long) g_in.size() < n) for (char c : sp.unit) g_in.push_back((unsigned char) c);
  }
  g_pos = 0; g_nerr = 0;
  // statistics go to stderr at debug level 1: capture them
  char tmpl[] = "/var/tmp/yaep-scale-XXXXXX"; int fd = mkstemp(tmpl); unlink(tmpl);
  fflush(stderr); int saved = dup(2); dup2(fd, 2);
  long b0 = yaep_verif_alloc_bytes, r0 = yaep_verif_alloc_count; long s0 = vy_all_searches(), c0 = vy_all_collisions();
  struct yaep_tree_node *root = NULL; int amb = 0;
  Work w{};
  w.rc = vy_parse(y, rd, se, bump_alloc, NULL, &root, &amb);
  w.bytes = yaep_verif_alloc_bytes - b0; w.reqs = yaep_verif_alloc_count - r0; w.searches = (long) (unsigned) (vy_all_searches() - s0); w.collisions = (long) (unsigned) (vy_all_collisions() - c0);
  w.errs = g_nerr;
  fflush(stderr); dup2(saved, 2); close(saved);
  std::string out; char buf[4096]; lseek(fd, 0, SEEK_SET); ssize_t k; while ((k = read(fd, buf, sizeof buf)) > 0) out.append(buf, k); close(fd);
  auto num = [&](const char *key) { size_t p = out.find(key); return p == std::string::npos ? -1L : atol(out.c_str() + p + strlen(key)); };
  w.usets = num("#unique sets = "); w.ucores = num("#unique set cores = "); w.triples = num("#unique triples (set, term, lookahead) = "); w.gotos = num("goto successes=");
  vy_free(y);
  return w;
}

int eng_scale_main(int argc, char **argv) {
  Args a(argc, argv, 2);
  int jmax = (int) a.geti("jmax", 5);
  int si = 0, sn = 1; sscanf(a.get("shard", "0/1").c_str(), "%d/%d", &si, &sn);
  std::vector<ScaleSpec> specs = {
    {"left-recursive list", "L : L ',' 'x' # c (0 2) | 'x' # 0 ;", ",x", "x", false},
    {"arithmetic E/T/F, flat sum", "TERM; E : T # 0 | E '+' T # plus (0 2) ; T : F # 0 | T '*' F # mult (0 2) ; F : 'a' # 0 | '(' E ')' # 1 ;", "+a", "a", false},
    {"arithmetic E/T/F, products and parentheses", "TERM; E : T # 0 | E '+' T # plus (0 2) ; T : F # 0 | T '*' F # mult (0 2) ; F : 'a' # 0 | '(' E ')' # 1 ;", "+a*(a+a)*a", "a", true},
    {"statement list with nesting", "P : P S # l (0 1) | S # 0 ; S : 'x' '=' E ';' # as (0 2) | '{' P '}' # bl (1) | 'i' '(' E ')' S # if (2 4) ; E : E '+' 'x' # p (0 2) | 'x' # 0 ;", "x=x+x;{x=x;}i(x)x=x;", "x=x;", true},
  };
  // ANSI C grammar of the test suite on test.i, concatenated 1, 2, 4 (8) times (a translation unit is a list of
  // external declarations, so the concatenation is again a program); files produced at build time from /repo/test
  std::vector<int> ansic_toks;
  if (a.has("ansic-desc") && a.has("ansic-toks")) {
    std::string desc; { FILE *f = fopen(a.get("ansic-desc").c_str(), "r"); if (f) { char b[65536]; size_t k; while ((k = fread(b, 1, sizeof b, f)) > 0) desc.append(b, k); fclose(f); } }
    { FILE *f = fopen(a.get("ansic-toks").c_str(), "r"); int c; if (f) { while (fscanf(f, "%d", &c) == 1) ansic_toks.push_back(c); fclose(f); } }
    if (!desc.empty() && ansic_toks.size() > 1000) specs.push_back({"ANSI C on test.i", desc, "", "", true});
  }
  g_ansic = &ansic_toks;
  Report rep;
  long idx = 0;
  for (auto &sp : specs) for (int la = 0; la < 3; la++) for (int mode = 0; mode < 3; mode++) {
    if (mode && la != 1) continue;            // the result-selecting flags are varied at the default lookahead level
    if ((idx++ % sn) != si) continue;
    Report tmp;
    ChildRes cr = run_child([&](Report &r) {
      std::vector<Work> ws;
      for (int j = 0; j <= (sp.unit.empty() ? (jmax >= 9 ? 3 : 2) : jmax); j++) {
        long n = sp.unit.empty() ? (long) g_ansic->size() << j : 1000L << j;
        if (mode == 2 && n > 256000) continue;   // known finding D35: the recursive pruning walk overflows the stack on trees deeper than ~250 000
        Work w = measure(sp, n, la, mode);
        ws.push_back(w);
        r.add("parses"); r.add("tokens", n);
        std::string cs = "grammar=" + sp.name + " la=" + std::to_string(la) + " mode=" + std::to_string(mode) + " n=" + std::to_string(n);
        auto V = [&](const std::string &kind, const std::string &d) { r.viol("{\"property\":\"C18\",\"kind\":" + jstr(kind) + ",\"engine\":\"scale\",\"case\":" + jstr(cs) + ",\"grammar\":" + jstr(sp.text) + ",\"detail\":" + jstr(d) + "}"); };
        if (w.rc != 0 || w.errs) { V("not-parsed", "rc=" + std::to_string(w.rc) + " syntax errors=" + std::to_string(w.errs)); continue; }
        if (j > 0) {
          const Work &p = ws[j - 1];
          r.add("doublings");
          auto ratio = [&](const char *what, long a2, long a1, double lim, long floor_) { if (a1 > 0 && a2 > lim * a1 + floor_) V("superlinear", std::string(what) + " grew from " + std::to_string(a1) + " to " + std::to_string(a2) + " (x" + std::to_string((double) a2 / a1) + ") when the input doubled to " + std::to_string(n) + " tokens; limit x" + std::to_string(lim)); };
          // limits calibrated once on the unchanged tree (largest observed ratio + >= 25 % head-room), then frozen:
          // bytes x2.2, requests x2.0, searches x2.94 (table expansions re-insert every element), collisions x24 in the
          // range where the 20000-entry initial tables fill up and x3.6 afterwards
          ratio("bytes requested from the allocator", w.bytes, p.bytes, 2.75, 0);
          ratio("allocation requests", w.reqs, p.reqs, 2.5, 64);
          ratio("hash table searches", w.searches, p.searches, 3.7, 0);
          if (p.collisions >= 50000) ratio("hash collisions", w.collisions, p.collisions, 4.5, 4000);   // below that the count is dominated by the filling of the initial tables
          // the number of set cores is constant on these periodic inputs, the number of sets at most doubles
          if (w.ucores != p.ucores) V("cores-rebuilt", "unique set cores " + std::to_string(p.ucores) + " at half the length, " + std::to_string(w.ucores) + " now");
          ratio("unique sets", w.usets, p.usets, 2.1, 8);
          // identical sets are found again rather than rebuilt: where the input nests (sets do repeat) at least 20 % of
          // the transitions must come from the (set, terminal, lookahead) cache (observed 25-40 %)
          if (sp.nested && w.gotos * 10 < n * 2) V("goto-cache-unused", "only " + std::to_string(w.gotos) + " of " + std::to_string(n) + " transitions were taken from the (set, terminal, lookahead) cache");
        }
        // absolute per-token caps at every grid point (observed maxima: 11.2 searches, 363 bytes + 1 MB base, 1.6 collisions per search)
        if (w.searches > 14 * n + 5000) V("work-per-token", std::to_string(w.searches) + " hash table searches for " + std::to_string(n) + " tokens");
        if (w.bytes > 500 * n + 2000000) V("work-per-token", std::to_string(w.bytes) + " bytes requested for " + std::to_string(n) + " tokens");
        if (w.collisions > 2 * w.searches + 5000) V("work-per-token", std::to_string(w.collisions) + " collisions in " + std::to_string(w.searches) + " searches");
        if (j == jmax || (sp.unit.empty() && j == 2)) r.sample("{\"grammar\":" + jstr(sp.name) + ",\"lookahead\":" + std::to_string(la) + ",\"mode\":" + std::to_string(mode) + ",\"tokens\":" + std::to_string(n) + ",\"bytes\":" + std::to_string(w.bytes) + ",\"requests\":" + std::to_string(w.reqs) + ",\"searches\":" + std::to_string(w.searches) + ",\"collisions\":" + std::to_string(w.collisions) + ",\"unique_sets\":" + std::to_string(w.usets) + ",\"goto_successes\":" + std::to_string(w.gotos) + "}");
        if (a.has("verbose")) printf("%s bytes=%ld reqs=%ld searches=%ld coll=%ld usets=%ld ucores=%ld triples=%ld gotos=%ld\n", cs.c_str(), w.bytes, w.reqs, w.searches, w.collisions, w.usets, w.ucores, w.triples, w.gotos), fflush(stdout);
      }
    }, tmp, 1200);
    for (auto &kv : tmp.counters) rep.counters[kv.first] += kv.second;
    for (auto &v : tmp.violations) rep.violations.push_back(v);
    for (auto &v : tmp.samples) rep.sample(v);
    if (!cr.ok) { rep.add("violations"); rep.violations.push_back("{\"property\":\"C18\",\"kind\":" + jstr(cr.timeout ? "timeout" : "crash") + ",\"engine\":\"scale\",\"case\":" + jstr("grammar=" + sp.name + " la=" + std::to_string(la) + " mode=" + std::to_string(mode)) + ",\"grammar\":" + jstr(sp.text) + ",\"detail\":" + jstr(child_failure_text(cr) + " " + cr.err_tail.substr(0, 800)) + "}"); }
  }
  rep.write_json(a.get("out", "/dev/stdout"), ",\n \"deadline_hit\": false");
  return 0;
}
