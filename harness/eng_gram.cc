// Engine `gram': every grammar of a bounded family x every token string up to a length x
// every flag vector, executed on the real library; each result judged by the reference
// model (ref.hpp).  Serves C01-C09, C13 (parse-level part).
#include "common.hpp"
#include "gram.hpp"
#include "ref.hpp"
#include "obs.hpp"
#include "known.hpp"
#include "curated.hpp"
#include <sstream>

extern "C" { extern int yaep_verif_cache_check; extern long yaep_verif_cache_hits, yaep_verif_cache_mismatches; }
enum { P12 = 1 << 12, P01 = 1 << 1, P02 = 1 << 2, P03 = 1 << 3, P04 = 1 << 4, P05 = 1 << 5, P06 = 1 << 6, P07 = 1 << 7, P08 = 1 << 8, P09 = 1 << 9, P13 = 1 << 13 };

struct GramCfg {
  std::string family;
  int props = 0;
  int nmax = 4;
  std::string tm_scheme = "u0";  // u0 | vary | full
  std::vector<int> cms{0};
  std::vector<Flags> flags;
  std::vector<int> alloc_modes{0};
  std::vector<int> ovs{0};
  bool fresh = false;            // fresh object per parse
  bool digest = false;           // per-grammar digest of all observations (C16)
  int batch = 16;
  int timeout = 20;
  // single-case filters (replay)
  long only_gi = -1; std::string only_tm, only_in, only_fl; int only_cm = -1, only_ov = -1, only_am = -1;
  bool verbose = false;
  std::set<std::string> known_enabled;
  double deadline = 0;
  long maxin = 60000;            // per grammar: the length bound is lowered until sum T^len <= maxin (large terminal sets of curated grammars)
};

static std::string flags_str(const Flags &f) {
  char b[96]; snprintf(b, sizeof b, "la%d.one%d.cost%d.rec%d.m%d.d%d", f.la, f.one, f.cost, f.rec, f.match, f.debug); return b;
}
static std::string ints_dot(const std::vector<int> &v) { std::string s; for (size_t i = 0; i < v.size(); i++) { if (i) s += "."; s += std::to_string(v[i]); } return s; }
static std::string ints_comma(const std::vector<int> &v) { std::string s = ""; for (size_t i = 0; i < v.size(); i++) { if (i) s += ","; s += std::to_string(v[i]); } return s.empty() ? "-" : s; }

// all menu vectors for a skeleton under a scheme
static std::vector<std::vector<int>> menu_vectors(const Skel &s, const std::string &scheme) {
  std::vector<std::vector<int>> out;
  size_t R = s.size();
  auto base = [&](int b, size_t k) { return b == 0 ? 0 : (s[k].rhs.empty() ? 1 : 7); };
  if (scheme == "u0") { out.push_back(std::vector<int>(R, 0)); return out; }
  std::set<std::vector<int>> seen;
  if (scheme == "vary") {
    for (int b = 0; b < 2; b++) {
      for (size_t v = 0; v < R; v++)
        for (int m = 0; m < menu_size(s[v]); m++) {
          std::vector<int> mv(R);
          for (size_t k = 0; k < R; k++) mv[k] = base(b, k);
          mv[v] = m;
          if (seen.insert(mv).second) out.push_back(mv);
        }
    }
    return out;
  }
  // full product
  std::vector<int> mv(R, 0);
  for (;;) {
    out.push_back(mv);
    int k = (int) R - 1;
    while (k >= 0 && ++mv[k] == menu_size(s[k])) { mv[k] = 0; k--; }
    if (k < 0) break;
  }
  return out;
}

static int cost_of(int cm, int k, int R) {
  switch (cm) { case 0: return 1; case 1: return k; case 2: return R - 1 - k; case 3: return k % 2; case 4: return 0; case 5: return (k * 2) % 3; }
  return 1;
}

struct CaseId {
  std::string family; long gi; int ov; std::vector<int> tm; int cm; int strict;
  std::string str() const { return "family=" + family + " gi=" + std::to_string(gi) + " ov=" + std::to_string(ov) + " tm=" + ints_dot(tm) + " cm=" + std::to_string(cm); }
};

// ---- recovery reference helpers (C06-C08)
static std::string strip_idx(const std::string &s) {   // T(code@idx) -> T(code)
  std::string o;
  for (size_t i = 0; i < s.size(); i++) { if (s[i] == '@') { while (i < s.size() && s[i] != ')') i++; } o += s[i]; }
  return o;
}
// first token (n = end of input) such that no sentence of G'' starts with the tokens up to and including it; -1 for a sentence
static int first_error_index(const Gram &g, const std::vector<int> &w) {
  int n = (int) w.size();
  for (int k = 0; k < n; k++) { std::vector<int> u(w.begin(), w.begin() + k + 1); RefVP v(g, u); if (!v.viable()) return k; }
  RefVP v(g, w);
  return v.sentence() ? -1 : n;
}
struct Repair { std::vector<int> r, idx; int deleted; int nseg; int a, b; };
static void repairs_rec(const std::vector<int> &w, int ERR, int from, int segs_left, std::vector<int> &cur, std::vector<int> &curidx, int deleted, int nseg, int a0, int b0, int want, std::vector<Repair> &out) {
  int n = (int) w.size();
  // finish: copy the rest
  {
    Repair rp; rp.r = cur; rp.idx = curidx; for (int i = from; i < n; i++) { rp.r.push_back(w[i]); rp.idx.push_back(i); }
    rp.deleted = deleted; rp.nseg = nseg; rp.a = a0; rp.b = b0;
    if (nseg >= 1 && deleted == want) out.push_back(rp);
  }
  if (!segs_left) return;
  for (int a = from; a <= n; a++) {
    for (int b = a; b <= n; b++) {
      if (deleted + (b - a) > want) break;
      size_t sz = cur.size();
      for (int i = from; i < a; i++) { cur.push_back(w[i]); curidx.push_back(i); }
      cur.push_back(ERR); curidx.push_back(a);
      repairs_rec(w, ERR, b, segs_left - 1, cur, curidx, deleted + (b - a), nseg + 1, nseg == 0 ? a : a0, nseg == 0 ? b : b0, want, out);
      cur.resize(sz); curidx.resize(sz);
    }
  }
}
// translations (strict strings with original token indices) of a repaired string in G''
static std::set<std::string> repaired_translations(const Gram &g, const Repair &rp, bool implicit_rule) {
  std::set<std::string> out;
  Ref R(g, rp.r, &rp.idx);
  if (R.sentence()) { const SpanVal &v = R.root(); for (auto &t : v.trs) out.insert(t.own); }
  if (implicit_rule && rp.r.size() == 1 && rp.r[0] == g.ERR()) out.insert("N");
  return out;
}

struct GramEngine {
  GramCfg cfg;
  Family *fam = nullptr;
  std::vector<Gram> curated;
  std::vector<int> codes{97, 98, 99, 100};
  int chain_k = 0;   // family ch<k>: generated on demand, see chain_gram()
  bool chain_slim = false;   // ch4s: S mentions N1..N4 in this order only

  // Family ch<k> ("chains"): the analysis of a grammar (nullability, FIRST, FOLLOW, accessibility, derivability)
  // is a set of fixpoint iterations whose number of passes depends on the order in which nonterminals are first
  // mentioned and rules are declared.  Nonterminals N1..Nk each have an own terminal rule (Ni : ci), a unit rule
  // (Ni : Nj) or both, in either order; the start symbol has rules S : z Ni ti for an ordered non-empty subset of
  // the Ni; the rule groups of N1..Nk follow in every order.  A terminal reaches FOLLOW(Ni) only through chains
  // of unit rules, in every direction relative to the processing order.  Index = mixed radix number.
  // k = 4: the own/unit order is one choice for all nonterminals (2 instead of 2^4); inputs of the chain
  // families are the k*k strings z c_j t_i only (run_one_grammar).
  static long chain_ipow(long b, int e) { long r = 1; while (e-- > 0) r *= b; return r; }
  static std::vector<std::vector<int>> chain_ordered_subsets(int k) {
    std::vector<std::vector<int>> out;
    for (int mask = 1; mask < (1 << k); mask++) {
      std::vector<int> v; for (int i = 0; i < k; i++) if (mask >> i & 1) v.push_back(i);
      do out.push_back(v); while (std::next_permutation(v.begin(), v.end()));
    }
    return out;
  }
  long chain_count() const {
    int k = chain_k;
    long shapes = chain_ipow(2 * k - 1, k), orders = k >= 4 ? 2 : chain_ipow(2, k), perms = 1;
    for (int i = 2; i <= k; i++) perms *= i;
    return shapes * orders * (chain_slim ? 1 : (long) chain_ordered_subsets(k).size()) * perms;
  }
  Gram chain_gram(long gi) const {
    int k = chain_k;
    static thread_local std::vector<std::vector<int>> subs; static thread_local int subs_k = 0;
    if (subs_k != k) { subs = chain_ordered_subsets(k); subs_k = k; }
    long perms = 1; for (int i = 2; i <= k; i++) perms *= i;
    long pi = gi % perms; gi /= perms;
    long si = 0;
    if (chain_slim) { for (si = 0; si < (long) subs.size(); si++) { bool id = (int) subs[si].size() == k; for (int i = 0; id && i < k; i++) id = subs[si][i] == i; if (id) break; } }
    else { si = gi % (long) subs.size(); gi /= (long) subs.size(); }
    long norders = k >= 4 ? 2 : chain_ipow(2, k);
    long oi = gi % norders; gi /= norders;
    if (k >= 4 && oi) oi = (1 << k) - 1;
    Gram g;
    for (int i = 0; i < k; i++) g.terms.push_back({std::string(1, (char) ('a' + i)), 'a' + i});       // own terminals c_i
    for (int i = 0; i < k; i++) g.terms.push_back({std::string(1, (char) ('p' + i)), 'p' + i});       // follow terminals t_i
    g.nts.push_back("S"); for (int i = 0; i < k; i++) g.nts.push_back(std::string("N") + (char) ('1' + i));
    auto mk = [&](int lhs, std::vector<int> rhs) { Rule r; r.lhs = lhs; r.rhs = rhs; r.has_transl = false; g.rules.push_back(r); };
    g.terms.push_back({"z", 'z'});   // common first terminal of the start rules: FIRST sets converge in one pass
    for (int i : subs[si]) mk(0, {2 * k, g.NT(1 + i), k + i});
    std::vector<int> perm(k); for (int i = 0; i < k; i++) perm[i] = i;
    for (long q = 0; q < pi; q++) std::next_permutation(perm.begin(), perm.end());
    std::vector<int> shape(k); for (int i = 0; i < k; i++) { shape[i] = (int) (gi % (2 * k - 1)); gi /= (2 * k - 1); }
    for (int i : perm) {
      // shape: 0 own only; 1..k-1 unit only (to the (shape)-th other nonterminal); k..2k-2 both
      int sh = shape[i];
      bool own = sh == 0 || sh >= k;
      int u = sh == 0 ? -1 : (sh >= k ? sh - k : sh - 1);   // index among the others
      int target = u < 0 ? -1 : (u >= i ? u + 1 : u);
      bool unit_first = (oi >> i) & 1;
      if (own && target >= 0 && unit_first) { mk(1 + i, {g.NT(1 + target)}); mk(1 + i, {i}); }
      else { if (own) mk(1 + i, {i}); if (target >= 0) mk(1 + i, {g.NT(1 + target)}); }
    }
    return g;
  }

  size_t n_skels() const { return fam ? fam->skels.size() : chain_k ? (size_t) chain_count() : curated.size(); }
  int cur_T(long gi) const { return chain_k ? 2 * chain_k + 1 : curated[gi].T(); }

  Gram build(long gi, int ov, const std::vector<int> &tm, int cm) const {
    Gram g;
    if (!fam) { g = chain_k ? chain_gram(gi) : curated[gi]; return g; }
    Skel s = fam->skels[gi];
    if (ov >= 100) {  // ov = 100 + k: the k-th permutation of the rule list (nonterminals are created in order of first
                      // mention, rules of a nonterminal are processed in reverse declaration order: both depend on it);
                      // permutations whose first rule does not belong to the start symbol are replaced by the identity
      std::vector<int> perm(s.size()); for (size_t i = 0; i < s.size(); i++) perm[i] = (int) i;
      for (int k = 0; k < ov - 100; k++) if (!std::next_permutation(perm.begin(), perm.end())) break;
      if (s[perm[0]].lhs == 0) { Skel t; for (int i : perm) t.push_back(s[i]); s = t; }
    } else
    if (ov == 1) {  // same rule set, rules of each lhs in reverse order (start rule stays an lhs-0 rule)
      std::stable_sort(s.begin(), s.end(), [](const SkelRule &a, const SkelRule &b) { if (a.lhs != b.lhs) return a.lhs < b.lhs; return skelrule_less(b, a); });
    }
    g = skel_to_gram(s, fam->sp, codes);
    // with ov==1 tm/cm indices still refer to positions in the fed order
    for (size_t k = 0; k < g.rules.size(); k++) apply_menu(g.rules[k], tm[k], (int) k, cost_of(cm, (int) k, (int) g.rules.size()));
    return g;
  }

  static std::string viol_json(const std::string &prop, const std::string &kind, const std::string &caseaddr, const Gram &g,
                               const std::vector<int> &codes_in, const std::string &fl, const std::string &detail) {
    return "{\"property\":" + jstr(prop) + ",\"kind\":" + jstr(kind) + ",\"engine\":\"gram\",\"case\":" + jstr(caseaddr) +
           ",\"grammar\":" + jstr(gram_to_string(g)) + ",\"tokens\":" + jints(codes_in) + ",\"flags\":" + jstr(fl) + ",\"detail\":" + jstr(detail) + "}";
  }

  // ------------------------------------------------------------------ one grammar
  void run_grammar(long gi, Report &rep) {
    Skel sk; if (fam) sk = fam->skels[gi];
    std::vector<std::vector<int>> mvs;
    if (fam) mvs = menu_vectors(sk, cfg.tm_scheme); else mvs.push_back({});
    for (int ov : cfg.ovs) {
      if (cfg.only_ov >= 0 && ov != cfg.only_ov) continue;
      if (!fam && ov) continue;
      for (auto &tm : mvs) {
        if (!cfg.only_tm.empty() && ints_dot(tm) != cfg.only_tm) continue;
        for (int cm : cfg.cms) {
          if (cfg.only_cm >= 0 && cm != cfg.only_cm) continue;
          if (!fam && cm) continue;
          Gram g = build(gi, ov, tm, cm);
          CaseId cid{cfg.family, gi, ov, tm, cm, 0};
          run_one_grammar(g, cid, rep);
        }
      }
    }
  }

  void run_one_grammar(const Gram &g, const CaseId &cid, Report &rep) {
    rep.add("grammars");
    // definition, both strictness values
    int rc[2];
    for (int strict = 0; strict < 2; strict++) {
      void *y = vy_create();
      if (!y) machinery_error("vy_create returned NULL");
      rc[strict] = define_by_callbacks(y, g, strict);
      vy_free(y);
    }
    if (cfg.props & (1 << 10)) {
      // C10 on generated grammars: the verdict of the grammar analysis (productivity, accessibility, loops are
      // fixpoints whose pass count depends on declaration order) against the reference facts
      GFacts wf(g);
      for (int strict = 0; strict < 2; strict++) {
        std::set<int> exp;
        if (wf.any_loop()) exp.insert(YAEP_LOOP_NONTERM);
        std::vector<char> mentioned(g.nts.size(), 0);   // yaep knows only the nonterminals that occur in a rule
        for (auto &r : g.rules) { mentioned[r.lhs] = 1; for (int x : r.rhs) if (!g.is_term(x)) mentioned[g.nt_index(x)] = 1; }
        for (size_t i = 0; i < g.nts.size(); i++) {
          if (!mentioned[i]) continue;
          if (!wf.productive[i] && (strict || (int) i == g.start())) exp.insert(YAEP_NONTERM_DERIVATION);
          if (!wf.reachable[i] && strict) exp.insert(YAEP_UNACCESSIBLE_NONTERM);
        }
        rep.add("c10_definitions");
        if (!exp.empty()) rep.add("c10_expected_rejections");
        bool ok = exp.empty() ? rc[strict] == 0 : exp.count(rc[strict]) > 0;
        if (!ok) {
          std::string e; for (int x : exp) e += (e.empty() ? "" : ",") + std::to_string(x);
          rep.viol(viol_json("C10", "definition-verdict", cid.str() + " strict=" + std::to_string(strict), g, {}, "", "strict=" + std::to_string(strict) + ": yaep_read_grammar returned " + std::to_string(rc[strict]) + ", the reference expects " + (exp.empty() ? std::string("0") : "one of {" + e + "}")));
        }
      }
    }
    if (rc[0] != 0) { rep.add("grammars_rejected"); return; }
    rep.add("grammars_accepted");
    if (rc[1] == 0) rep.add("grammars_accepted_strict");
    bool strict_ok = rc[1] == 0;
    GFacts gf(g);
    if (gf.any_loop()) { rep.add("accepted_but_reference_sees_loop"); return; }  // C10's business
    if (g.rules.size() >= 2) rep.add("grammars_nontrivial");

    void *y = NULL;
    if (!cfg.fresh) { y = vy_create(); if (define_by_callbacks(y, g, 0) != 0) machinery_error("redefinition of an accepted grammar failed"); }

    // all inputs of length <= nmax over the declared terminals
    int T = g.T();
    std::vector<int> w;
    if (chain_k) {
      if (cfg.nmax >= 3) for (int j = 0; j < chain_k; j++) for (int i = 0; i < chain_k; i++) {
        w = {2 * chain_k, j, chain_k + i};
        if (cfg.only_in.empty() || cfg.only_in == ints_comma(w)) run_input(g, cid, strict_ok, y, w, rep);
      }
    } else {
    int nmax_g = cfg.nmax;
    if (T > 1) { for (;;) { double sum = 0, p = 1; for (int l = 0; l <= nmax_g; l++) { sum += p; p *= T; } if (sum <= (double) cfg.maxin || nmax_g <= 1) break; nmax_g--; } }
    if (nmax_g < cfg.nmax) rep.add("grammars_length_capped_to_" + std::to_string(nmax_g));
    for (int len = 0; len <= nmax_g; len++) {
      if (len > 0 && T == 0) break;
      w.assign(len, 0);
      for (;;) {
        if (cfg.deadline > 0 && now_s() > cfg.deadline) { rep.add("deadline_hit_inside_grammar"); break; }
        bool sel = cfg.only_in.empty() || cfg.only_in == ints_comma(w);
        if (sel) run_input(g, cid, strict_ok, y, w, rep);
        int k = len - 1;
        while (k >= 0 && ++w[k] == T) { w[k] = 0; k--; }
        if (k < 0) break;
      }
    }
    }
    if (y) vy_free(y);
  }

  // ------------------------------------------------------------------ one input
  void run_input(const Gram &g, const CaseId &cid, bool strict_ok, void *yshared, const std::vector<int> &w, Report &rep) {
    std::vector<int> codes_in(w.size());
    for (size_t i = 0; i < w.size(); i++) codes_in[i] = g.terms[w[i]].second;
    Ref R(g, w);
    bool sent = R.sentence();
    const SpanVal *rootv = nullptr;
    if (sent) { rootv = &R.root(); if (R.cyclic) machinery_error("reference met A =>+ A in an accepted grammar: " + gram_to_string(g)); }
    rep.add("inputs");
    rep.add(sent ? "inputs_sentence" : "inputs_nonsentence");
    if (sent && rootv->cnt >= 2) rep.add("inputs_ambiguous");
    if (sent && rootv->trs.size() >= 2) rep.add("inputs_multi_translation");
    if (sent && rootv->capped) { rep.add("reference_capped"); }
    std::string addr0 = cid.str() + " in=" + ints_comma(w);

    int ferr = -2;   // first error index by the reference, computed on demand
    std::map<std::string, std::pair<std::string, std::string>> c09groups;  // key(one,cost,rec,match,am) -> (first obs, its flags)

    for (const Flags &f : cfg.flags) {
      if (!cfg.only_fl.empty() && flags_str(f) != cfg.only_fl) continue;
      for (int am : cfg.alloc_modes) {
        if (cfg.only_am >= 0 && am != cfg.only_am) continue;
        std::string fl = flags_str(f);
        std::string addr = addr0 + " fl=" + fl + " am=" + std::to_string(am);
        void *y = yshared;
        if (cfg.fresh) { y = vy_create(); if (define_by_callbacks(y, g, 0) != 0) machinery_error("definition failed on a fresh object"); }
        apply_flags(y, f);
        g_trk.reset();
        long mm0 = yaep_verif_cache_mismatches, hh0 = yaep_verif_cache_hits;
        yaep_verif_cache_check = (cfg.props & P09) ? 1 : 0;
        ParseObs o = run_parse(y, codes_in, am);
        yaep_verif_cache_check = 0;
        rep.add("parses");
        if (cfg.props & P09) { rep.add("c09_cache_hits_checked", yaep_verif_cache_hits - hh0); }
        bool cache_bad = (cfg.props & P09) && yaep_verif_cache_mismatches != mm0;
        auto V = [&](const std::string &prop, const std::string &kind, const std::string &detail) {
          std::string kf = classify_known(cfg.known_enabled, prop, kind, g, w, f, R, o);
          std::string js = viol_json(prop, kind, addr, g, codes_in, fl, detail);
          if (getenv("VERIF_FEATURES")) js.insert(js.size() - 1, ",\"features\":" + jstr(features(R)) + ",\"nderiv\":" + std::to_string(rootv ? rootv->cnt : 0));
          if (!kf.empty()) { js.insert(js.size() - 1, ",\"finding\":" + jstr(kf)); rep.knownf(js); rep.add("known_" + kf); }
          else rep.viol(js);
          if (cfg.verbose) printf("VIOLATION-DETAIL %s\n", js.c_str());
        };
        DenRes d;
        bool have_den = false;
        if (o.rc == 0 && o.root != NULL) { d = denote(o.root, (int) w.size(), am != 2); have_den = true; }
        if (cfg.verbose) {
          printf("case %s\n  grammar: %s\n  sentence(ref)=%d derivations(ref)=%ld translations(ref)=%zu\n  rc=%d root=%s amb=%d errs=%zu\n", addr.c_str(), gram_to_string(g).c_str(), sent, rootv ? rootv->cnt : 0, rootv ? rootv->trs.size() : 0, o.rc, o.root ? "non-NULL" : "NULL", o.amb, o.errs.size());
          for (auto &e : o.errs) printf("  syntax_error(err=%d@%ld ign=%d@%ld rec=%d@%ld)\n", e.err, e.err_a, e.ign, e.ign_a, e.rec, e.rec_a);
          if (have_den) { for (auto &s : d.trees) printf("  yaep tree: %s\n", s.c_str()); for (auto &s : d.shape) printf("  shape: %s\n", s.c_str()); }
          if (rootv) for (auto &t : rootv->trs) printf("  ref  tree: %s (cost %ld)\n", (f.cost ? t.tot : t.own).c_str(), t.cost);
        }
        // ---- C01
        if (cfg.props & P01) {
          if (o.rc != 0) V("C01", "nonzero-return", "yaep_parse returned " + std::to_string(o.rc) + " on declared tokens");
          else if (!f.rec) {
            if (sent && (o.root == NULL || !o.errs.empty())) V("C01", "sentence-rejected", "recovery off, sentence: root " + std::string(o.root ? "non-NULL" : "NULL") + ", " + std::to_string(o.errs.size()) + " syntax_error calls");
            if (!sent && (o.root != NULL || o.errs.size() != 1)) V("C01", "nonsentence-accepted", "recovery off, non-sentence: root " + std::string(o.root ? "non-NULL" : "NULL") + ", " + std::to_string(o.errs.size()) + " syntax_error calls");
          } else {
            if (sent && !o.errs.empty()) V("C01", "sentence-rejected", "recovery on, sentence, " + std::to_string(o.errs.size()) + " syntax_error calls");
            if (!sent && o.errs.empty()) V("C01", "nonsentence-accepted", "recovery on, non-sentence, no syntax_error call");
            if (sent && o.root == NULL) V("C01", "sentence-null-root", "recovery on, sentence, NULL root");
          }
        }
        bool clean_sentence = sent && o.rc == 0 && o.errs.empty();
        const std::vector<TV> *T = rootv ? &rootv->trs : nullptr;
        bool refcap = rootv && rootv->capped;
        // ---- C02
        if ((cfg.props & P02) && clean_sentence && f.one == 1 && !refcap) {
          // with the cost flag the cost fields are C04's business: the tree is compared without them
          rep.add("c02_cases");
          if (f.cost) rep.add("c02_cases_cost_flag");
          if (o.root == NULL) V("C02", "null-root", "sentence, one parse: NULL root");
          else {
            for (auto &s : d.shape) V("C02", "shape", s);
            if (d.n_alt) V("C02", "alt-in-single-tree", "one parse requested, tree contains " + std::to_string(d.n_alt) + " ALT nodes");
            if (d.shape.empty() && !d.n_alt) {
              if (d.trees.size() != 1) V("C02", "not-one-tree", "graph denotes " + std::to_string(d.trees.size()) + " trees");
              else if (!f.cost && !std::binary_search(T->begin(), T->end(), TV{*d.trees.begin(), "", 0})) V("C02", "spurious-tree", "returned tree " + *d.trees.begin() + " is not the translation of any derivation");
              else if (f.cost) {
                bool found = false; std::string mine = strip_costs(*d.trees.begin());
                for (auto &t : *T) if (strip_costs(t.own) == mine) { found = true; break; }
                if (!found) V("C02", "spurious-tree", "returned tree " + *d.trees.begin() + " (cost flag set, compared without cost fields) is not the translation of any derivation");
              }
            }
          }
        }
        // ---- C03
        if ((cfg.props & P03) && clean_sentence && f.one == 0 && f.cost == 0 && !refcap) {
          rep.add("c03_cases");
          if (rootv->cnt >= 2) rep.add("c03_cases_ambiguous");
          if (o.root == NULL) V("C03", "null-root", "sentence, all parses: NULL root");
          else if (d.capped) rep.add("den_capped");
          else {
            for (auto &s : d.shape) V("C03", "shape", s);
            if (d.shape.empty()) {
              for (auto &s : d.trees) if (!std::binary_search(T->begin(), T->end(), TV{s, "", 0})) { V("C03", "spurious-tree", "denoted tree " + s + " is not the translation of any derivation"); break; }
              for (auto &t : *T) if (!d.trees.count(t.own)) { V("C03", "missing-translation", "translation " + t.own + " of a derivation is not denoted by the DAG (" + std::to_string(d.trees.size()) + " of " + std::to_string(T->size()) + " present)"); break; }
            }
            if (d.n_alt) rep.add("c03_cases_with_alt");
            if (d.shared_anodes) rep.add("c03_cases_shared_anodes");
          }
        }
        // ---- C04
        if ((cfg.props & P04) && clean_sentence && !refcap) {
          rep.add("c04_cases");
          if (o.root == NULL) V("C04", "null-root", "sentence: NULL root");
          else if (d.capped) rep.add("den_capped");
          else if (f.cost) {
            long mn = LONG_MAX; for (auto &t : *T) mn = std::min(mn, t.cost);
            std::set<std::string> M; for (auto &t : *T) if (t.cost == mn) M.insert(t.tot);
            if (M.size() < T->size()) rep.add("c04_cases_pruning_needed");
            std::map<std::string, int> own; for (auto &r : g.rules) if (r.anode) own[r.aname] = r.cost;
            CostCk ck(own);
            long rt = ck.tot(o.root);
            for (auto &s : d.shape) V("C04", "shape", s);
            if (d.shape.empty()) {
              if (!ck.err.empty()) V("C04", "cost-field", ck.err);
              bool has_anode = d.n_anode > 0;
              if (ck.err.empty() && has_anode && rt != mn) V("C04", "root-cost-not-min", "root cost " + std::to_string(rt) + ", minimal translation cost " + std::to_string(mn));
              if (f.one) {
                if (d.trees.size() != 1 || d.n_alt) V("C04", "not-one-tree", "one parse with cost: graph denotes " + std::to_string(d.trees.size()) + " trees, " + std::to_string(d.n_alt) + " ALT nodes");
                else if (!M.count(*d.trees.begin())) {
                  // distinguish wrong tree from right tree with wrong cost fields
                  bool minimal_shape = false; for (auto &t : *T) if (t.cost == mn && strip_costs(t.tot) == strip_costs(*d.trees.begin())) minimal_shape = true;
                  V("C04", minimal_shape ? "cost-field" : "non-minimal-tree", "returned tree " + *d.trees.begin() + " is not a minimal-cost translation with summed cost fields (minimum " + std::to_string(mn) + ")");
                }
              } else {
                for (auto &s : d.trees) if (!M.count(s)) {
                  bool minimal_shape = false; for (auto &t : *T) if (t.cost == mn && strip_costs(t.tot) == strip_costs(s)) minimal_shape = true;
                  V("C04", minimal_shape ? "cost-field" : "non-minimal-tree", "denoted tree " + s + " is not a minimal-cost translation (minimum " + std::to_string(mn) + ")"); break; }
                for (auto &s : M) if (!d.trees.count(s)) {
                  bool shape_present = false; for (auto &x : d.trees) if (strip_costs(x) == strip_costs(s)) shape_present = true;
                  V("C04", shape_present ? "cost-field" : "missing-minimal", "minimal-cost translation " + s + " is not denoted"); break; }
              }
            }
          } else {
            // cost flag off: cost field = own cost; Den must be within T (own strings)
            for (auto &s : d.trees) if (!std::binary_search(T->begin(), T->end(), TV{s, "", 0})) { V("C04", "own-cost-field", "cost flag off: tree " + s + " does not carry the rules' own costs / is no translation"); break; }
          }
        }
        // ---- C05
        if ((cfg.props & P05) && clean_sentence && !refcap) {
          rep.add("c05_cases");
          if (o.amb != 0 && rootv->cnt < 2) V("C05", "flag-unsound", "ambiguity flag set but the input has exactly one derivation");
          if (rootv->trs.size() >= 2 && o.amb == 0) V("C05", "flag-missed", "input has " + std::to_string(rootv->trs.size()) + " different translations but the ambiguity flag is 0");
          if (rootv->cnt >= 2) rep.add("c05_cases_ambiguous");
          if (o.amb) rep.add("c05_flag_set");
        }
        // ---- C06 / C07 / C08 (syntax errors and recovery)
        if (cfg.props & (P06 | P07 | P08)) {
          int n = (int) w.size();
          if (ferr == -2) ferr = first_error_index(g, w);
          bool refsent = ferr == -1;
          auto attr_ok = [&](int idx, long a) { return idx == n ? a == -1 : a == idx; };
          if ((cfg.props & P06) && strict_ok && !refsent && o.rc == 0) {
            rep.add("c06_cases");
            if (o.errs.empty()) V("C06", "no-callback", "non-sentence without any syntax_error call");
            else {
              const SynErr &e0 = o.errs[0];
              if (e0.err != ferr) V("C06", "first-error-position", "first syntax_error reports token " + std::to_string(e0.err) + ", the first token that no sentence can contain at that place is " + std::to_string(ferr));
              else if (!attr_ok(e0.err, e0.err_a)) V("C06", "error-attribute", "error token " + std::to_string(e0.err) + " reported with the attribute of " + (e0.err_a == -1 ? std::string("NULL") : e0.err_a == -2 ? std::string("a foreign pointer") : "token " + std::to_string(e0.err_a)));
              if (ferr == n) rep.add("c06_error_at_end"); else if (ferr == 0) rep.add("c06_error_at_0");
              if (!f.rec) {
                if (o.errs.size() != 1) V("C06", "callback-count", std::to_string(o.errs.size()) + " syntax_error calls with recovery off");
                if (e0.ign != -1 || e0.rec != -1 || e0.ign_a != -1 || e0.rec_a != -1) V("C06", "recovery-arguments-off", "recovery off but the recovery arguments are (" + std::to_string(e0.ign) + "," + std::to_string(e0.ign_a) + "," + std::to_string(e0.rec) + "," + std::to_string(e0.rec_a) + ")");
              } else {
                int prev = -1;
                for (auto &e : o.errs) {
                  if (!(0 <= e.ign && e.ign <= e.rec && e.rec <= n)) { V("C06", "range", "call reports first ignored " + std::to_string(e.ign) + ", first recovered " + std::to_string(e.rec) + " with " + std::to_string(n) + " tokens"); break; }
                  if (!(0 <= e.err && e.err <= n)) { V("C06", "range", "error token " + std::to_string(e.err) + " outside the input"); break; }
                  if (!attr_ok(e.err, e.err_a) || !attr_ok(e.ign, e.ign_a) || !attr_ok(e.rec, e.rec_a)) { V("C06", "attributes", "attributes do not belong to the reported indices: err " + std::to_string(e.err) + "@" + std::to_string(e.err_a) + " ign " + std::to_string(e.ign) + "@" + std::to_string(e.ign_a) + " rec " + std::to_string(e.rec) + "@" + std::to_string(e.rec_a)); break; }
                  if (e.err <= prev) { V("C06", "not-increasing", "error tokens do not strictly increase: " + std::to_string(prev) + " then " + std::to_string(e.err)); break; }
                  prev = e.err;
                }
                if (o.errs.size() >= 2) rep.add("c06_multi_error_cases");
              }
            }
          }
          if ((cfg.props & P07) && f.rec && o.rc == 0) {
            rep.add("c07_cases");
            if (o.root == NULL) V("C07", "null-root", "recovery on: NULL root");
            else if (refsent != o.errs.empty()) V("C07", "callback-iff-nonsentence", std::string(refsent ? "sentence" : "non-sentence") + " with " + std::to_string(o.errs.size()) + " syntax_error calls");
            else {
              for (auto &x : d.shape) V("C07", "shape", x);
              if (!refsent && d.shape.empty() && !d.capped) {
                rep.add("c07_recovered_cases");
                long Rtot = 0; bool neg = false;
                for (auto &e : o.errs) { if (e.rec < e.ign) neg = true; Rtot += e.rec - e.ign; }
                if (neg || Rtot < 0 || Rtot > n) V("C07", "ignored-total", "reported ignored total " + std::to_string(Rtot) + " is impossible for " + std::to_string(n) + " tokens");
                else {
                  bool implicit_rule = true; for (auto &r : g.rules) if (r.lhs == g.start() && r.rhs.size() == 1 && r.rhs[0] == g.ERR()) implicit_rule = false;
                  std::vector<Repair> reps; std::vector<int> cur, curidx;
                  std::set<std::string> strict_all, loose_all;
                  std::vector<std::set<std::string>> per;
                  // up to 3 segments first; more (up to n+1) only if some tree is not explained yet
                  for (int maxseg = 3; maxseg <= std::max(3, n + 1); maxseg++) {
                    reps.clear(); cur.clear(); curidx.clear(); strict_all.clear(); loose_all.clear();
                    repairs_rec(w, g.ERR(), 0, maxseg, cur, curidx, 0, 0, 0, 0, (int) Rtot, reps);
                    per.assign(reps.size(), std::set<std::string>());
                    for (size_t k = 0; k < reps.size(); k++) { per[k] = repaired_translations(g, reps[k], implicit_rule); for (auto &t : per[k]) { strict_all.insert(t); loose_all.insert(strip_idx(t)); } }
                    bool expl = true; for (auto &t : d.trees) if (!loose_all.count(strip_idx(t))) expl = false;
                    if (expl) break;
                  }
                  bool all_ok = true, strict_ok2 = true;
                  for (auto &t : d.trees) { if (!loose_all.count(strip_idx(t))) { all_ok = false; V("C07", "tree-not-a-repair", "tree " + t + " is not the translation of any input repaired by replacing segments of " + std::to_string(Rtot) + " tokens in total by `error' (" + std::to_string(reps.size()) + " repairs tried)"); break; } if (!strict_all.count(t)) strict_ok2 = false; }
                  if (all_ok && !strict_ok2) V("C07", "term-attribute", "the tree is a translation of a repaired input only if the attributes of its TERM nodes are ignored: some TERM node carries the attribute of a token other than the one it derives");
                  if (all_ok && !strict_ok2) { rep.add("c07_attribute_only_mismatch"); if (getenv("VERIF_TRACE")) { std::string ts; for (auto &t : d.trees) ts += t + " "; std::string es; for (auto &e : o.errs) es += "(" + std::to_string(e.err) + "," + std::to_string(e.ign) + "," + std::to_string(e.rec) + ")"; fprintf(stderr, "ATTR %s | %s | errs %s | trees %s\n", addr.c_str(), gram_to_string(g).c_str(), es.c_str(), ts.c_str()); } }
                  if (all_ok && o.errs.size() == 1) {
                    // unique single-segment repair of that size explaining every tree
                    int cnt = 0, ua = -1, ub = -1;
                    for (size_t k = 0; k < reps.size(); k++) if (reps[k].nseg == 1) {
                      bool ex = true; std::set<std::string> loose; for (auto &t : per[k]) loose.insert(strip_idx(t));
                      for (auto &t : d.trees) if (!loose.count(strip_idx(t))) ex = false;
                      if (ex) { cnt++; ua = reps[k].a; ub = reps[k].b; }
                    }
                    bool any_multi = false;
                    for (size_t k = 0; k < reps.size() && !any_multi; k++) if (reps[k].nseg > 1) { bool ex = true; std::set<std::string> loose; for (auto &t : per[k]) loose.insert(strip_idx(t)); for (auto &t : d.trees) if (!loose.count(strip_idx(t))) ex = false; if (ex) any_multi = true; }
                    if (cnt == 1 && !any_multi) {
                      rep.add("c07_unique_segment_cases");
                      if (o.errs[0].ign != ua || o.errs[0].rec != ub) V("C07", "segment-mismatch", "the only repair of " + std::to_string(Rtot) + " tokens explaining the tree replaces [" + std::to_string(ua) + "," + std::to_string(ub) + ") but the callback reports [" + std::to_string(o.errs[0].ign) + "," + std::to_string(o.errs[0].rec) + ")");
                    }
                  }
                }
              }
            }
          }
          if ((cfg.props & P08) && f.rec && o.rc == 0 && !refsent && !o.errs.empty() && g.uses_error()) {
            rep.add("c08_cases");
            const SynErr &e0 = o.errs[0];
            // the statement measures from the error token yaep reported (its position is C06's business)
            int k = (e0.err >= 0 && e0.err <= n) ? e0.err : ferr, m = f.match, best = INT_MAX;
            for (int p = 0; p <= k; p++) {
              std::vector<int> pre(w.begin(), w.begin() + p); pre.push_back(g.ERR());
              RefVP vp(g, pre);
              if (!vp.viable()) continue;
              for (int q = k; q <= n; q++) {
                if ((k - p) + (q - k) >= best) break;
                std::vector<int> x = pre; bool need_sentence;
                if (q + m <= n) { x.insert(x.end(), w.begin() + q, w.begin() + q + m); need_sentence = false; }
                else { x.insert(x.end(), w.begin() + q, w.end()); need_sentence = true; }
                RefVP v2(g, x);
                if (need_sentence ? v2.sentence() : v2.viable()) { best = (k - p) + (q - k); break; }
              }
            }
            if (best == INT_MAX) rep.add("c08_no_simple_recovery");
            else {
              long R1 = e0.rec - e0.ign;
              if (R1 > best) V("C08", "not-minimal", "first recovery ignores " + std::to_string(R1) + " tokens, a simple recovery (back to an earlier `error' position, skip forward, match " + std::to_string(m) + ") costs " + std::to_string(best));
              if (best > 0) rep.add("c08_nonzero_bound");
            }
          }
        }
        if (cfg.digest) {
          std::ostringstream os;
          os << addr << " rc=" << o.rc << " amb=" << o.amb << " root=" << (o.root ? 1 : 0) << " msg=" << (o.rc ? vy_error_message(y) : "");
          for (auto &e : o.errs) os << " err(" << e.err << "@" << e.err_a << "," << e.ign << "@" << e.ign_a << "," << e.rec << "@" << e.rec_a << ")";
          // recovered parses: TERM attributes are D20's business (wrong / uninitialised token index), the digest ignores them
          if (have_den) { for (auto &t : d.trees) os << " " << (o.errs.empty() ? t : strip_idx(t)); for (auto &x : d.shape) os << " shape:" << x; }
          os << " allocs=" << g_trk.n_alloc << " frees=" << g_trk.n_free;
          unsigned long h = 1469598103934665603ULL; for (char c : os.str()) h = (h ^ (unsigned char) c) * 1099511628211ULL;
          rep.counters["dg:" + std::to_string(cid.gi)] += (long) (h >> 36);
        }
        // ---- C13 (parse-level)
        if ((cfg.props & P13) && o.rc == 0) check_c13(g, y, o, d, have_den, am, w, f, V, rep);
        // ---- C09 differential
        if (cache_bad) V("C09", "cached-set-differs", "a set taken from the (set, terminal, lookahead) cache is not the set a fresh computation produces");
        if (cfg.props & P09) {
          std::string key = std::to_string(f.one) + "." + std::to_string(f.cost) + "." + std::to_string(f.rec) + "." + std::to_string(f.match) + "." + std::to_string(am);
          std::ostringstream os;
          os << "rc=" << o.rc << " amb=" << o.amb << " root=" << (o.root ? 1 : 0);
          for (auto &e : o.errs) os << " err(" << e.err << "@" << e.err_a << "," << e.ign << "@" << e.ign_a << "," << e.rec << "@" << e.rec_a << ")";
          if (have_den) { for (auto &s : d.trees) os << " " << s; for (auto &s : d.shape) os << " shape:" << s; }
          auto it = c09groups.find(key);
          if (it == c09groups.end()) c09groups[key] = {os.str(), fl};
          else {
            rep.add("c09_comparisons");
            if (it->second.first != os.str()) {
              bool d20 = cfg.known_enabled.count("D20") && !o.errs.empty() && strip_idx(it->second.first) == strip_idx(os.str());
              if (d20) { rep.add("known_D20"); rep.knownf("{\"property\":\"C09\",\"kind\":\"differs-across-levels\",\"case\":" + jstr(addr) + ",\"finding\":\"D20\"}"); }
              else V("C09", "differs-across-levels", "observation under " + fl + " differs from " + it->second.second + ": [" + os.str() + "] vs [" + it->second.first + "]");
            }
          }
        }
        if (cfg.fresh && !(cfg.props & P13)) vy_free(y);
      }
    }
    if (rep.samples.size() < 3 && sent && rootv->cnt >= 2)
      rep.sample("{\"grammar\":" + jstr(gram_to_string(g)) + ",\"tokens\":" + jints(codes_in) + ",\"derivations\":" + std::to_string(rootv->cnt) + ",\"translations\":" + std::to_string(rootv->trs.size()) + "}");
  }

  static std::string strip_costs(const std::string &s) {
    // remove ":<digits>" after anode names to compare shapes only
    std::string o;
    for (size_t i = 0; i < s.size(); i++) {
      if (s[i] == ':') { size_t j = i + 1; while (j < s.size() && isdigit((unsigned char) s[j])) j++; if (j < s.size() && s[j] == ';') { i = j - 1; continue; } }
      o += s[i];
    }
    return o;
  }

  template <class VF>
  void check_c13(const Gram &g, void *y, const ParseObs &o, const DenRes &d, bool have_den, int am, const std::vector<int> &w, const Flags &f, VF &V, Report &rep) {
    rep.add("c13_cases");
    for (auto &e : g_trk.errors) V("C13", "alloc-pairing", e);
    g_trk.errors.clear();
    if (have_den) for (auto &s : d.shape) if (s.find("parse_alloc") != std::string::npos) V("C13", "reachable-not-live", s);
    if (!cfg.fresh) return;
    // the tree must survive the grammar
    vy_free(y);
    if (o.root == NULL) { if (am == 0 && g_trk.live() != 0) V("C13", "leak-without-tree", std::to_string(g_trk.live()) + " parse_alloc blocks live although no tree was returned"); return; }
    if (am == 2) {   // default allocator: the terminal callback must still be called once per TERM node
      std::set<const yaep_tree_node *> terms2, seen2; std::vector<const yaep_tree_node *> st2{o.root};
      while (!st2.empty()) { const yaep_tree_node *n = st2.back(); st2.pop_back(); if (!n || !seen2.insert(n).second) continue; if (n->type == YAEP_TERM) terms2.insert(n); else if (n->type == YAEP_ANODE) { for (yaep_tree_node **c = n->val.anode.children; *c; c++) st2.push_back(*c); } else if (n->type == YAEP_ALT) { st2.push_back(n->val.alt.node); st2.push_back(n->val.alt.next); } }
      static long cb2; cb2 = 0;
      vy_free_tree(o.root, NULL, [](struct yaep_term *) { cb2++; });
      rep.add("c13_default_allocator_frees");
      if (cb2 != (long) terms2.size()) V("C13", "termcb-count", "default allocator: terminal callback called " + std::to_string(cb2) + " times for " + std::to_string(terms2.size()) + " TERM nodes");
      return;
    }
    DenRes d2 = denote(o.root, (int) w.size(), true);
    if (d2.trees != d.trees || !d2.shape.empty()) V("C13", "tree-changed-after-free-grammar", "tree differs after yaep_free_grammar" + (d2.shape.empty() ? std::string() : ": " + d2.shape[0]));
    if (am != 0) return;
    // count distinct TERM nodes
    std::set<const yaep_tree_node *> terms, seen;
    std::vector<const yaep_tree_node *> st{o.root};
    while (!st.empty()) {
      const yaep_tree_node *n = st.back(); st.pop_back();
      if (!n || !seen.insert(n).second) continue;
      if (n->type == YAEP_TERM) terms.insert(n);
      else if (n->type == YAEP_ANODE) { for (yaep_tree_node **c = n->val.anode.children; *c; c++) st.push_back(*c); }
      else if (n->type == YAEP_ALT) { st.push_back(n->val.alt.node); st.push_back(n->val.alt.next); }
    }
    static std::map<const void *, int> cbcount; cbcount.clear();
    vy_free_tree(o.root, trk_free, [](struct yaep_term *t) { cbcount[(const void *) t]++; });
    for (auto &e : g_trk.errors) V("C13", "free-tree-pairing", e);
    size_t calls = 0; bool dup = false; for (auto &kv : cbcount) { calls += kv.second; if (kv.second != 1) dup = true; }
    if (dup || calls != terms.size()) V("C13", "termcb-count", "terminal callback called " + std::to_string(calls) + " times for " + std::to_string(terms.size()) + " TERM nodes");
    if (g_trk.live_epoch(g_trk.epoch) != 0) V("C13", "leak-after-free-tree", std::to_string(g_trk.live_epoch(g_trk.epoch)) + " parse_alloc blocks of this parse still live after yaep_free_tree");
    if (d.n_alt) rep.add("c13_cases_with_alt");
    if (d.shared_anodes) rep.add("c13_cases_shared");
  }

  // watchdog of one grammar: proportional to the number of parses it stands for (a curated grammar with 6
  // terminals at n = 6 under ASan is > 2 million parses; a fixed 20 s would call that a hang)
  int grammar_timeout(long gi) const {
    double T = fam ? fam->sp.T : cur_T(gi), inputs = 0, p = 1;
    if (chain_k) inputs = chain_k * chain_k;
    else { for (int l = 0; l <= cfg.nmax; l++) { if (inputs + p > (double) cfg.maxin && l > 1) break; inputs += p; p *= T; } }
    double variants = 1;
    if (fam) variants = (double) cfg.ovs.size() * (double) cfg.cms.size() * (double) menu_vectors(fam->skels[gi], cfg.tm_scheme).size();
    double parses = inputs * variants * (double) cfg.alloc_modes.size(), w = 0;
    for (auto &f : cfg.flags) w += f.debug ? 20 : 1;   // debug levels print every set to stderr
    double t = cfg.timeout + parses * w / 1000.0;
    return (int) std::min(t, 3000.0);
  }
  // never wait much longer than the deadline allows
  int within_deadline(int tmo) const {
    if (cfg.deadline <= 0) return tmo;
    double left = cfg.deadline - now_s() + 30;
    return (int) std::max(20.0, std::min((double) tmo, left));
  }

  // ------------------------------------------------------------------ driver loop
  int main_loop(int shard, int nshards, const std::string &out) {
    Report total;
    size_t N = n_skels();
    std::vector<long> mine;
    for (size_t gi = 0; gi < N; gi++) {
      if (cfg.only_gi >= 0 && (long) gi != cfg.only_gi) continue;
      if ((int) (gi % nshards) == shard) mine.push_back((long) gi);
    }
    bool deadline_hit = false;
    size_t done = 0;
    if (cfg.verbose) {  // replay mode: in-process, no fork
      for (long gi : mine) run_grammar(gi, total);
    } else
    for (size_t b = 0; b < mine.size(); b += cfg.batch) {
      if (cfg.deadline > 0 && now_s() > cfg.deadline) { deadline_hit = true; break; }
      size_t e = std::min(mine.size(), b + cfg.batch);
      int btmo = 0; for (size_t k = b; k < e; k++) btmo += grammar_timeout(mine[k]);
      ChildRes cr = run_child([&](Report &r) { for (size_t k = b; k < e; k++) run_grammar(mine[k], r); }, total, within_deadline(btmo));
      if (!cr.ok) {
        if (cfg.deadline > 0 && now_s() > cfg.deadline) { deadline_hit = true; break; }   // do not start an isolation after the deadline
        // isolation is expensive (a fork per grammar / variant / input / flag vector): once this shard has
        // reported 30 violations further failing batches are only counted
        if (total.counters["violations"] >= 30) total.add("failing_batches_not_isolated");
        else isolate(mine, b, e, total);
      }
      done = e;
    }
    if (total.counters.count("deadline_hit_inside_grammar")) deadline_hit = true;
    total.add("skeletons_total_in_family", 0);
    char extra[256];
    snprintf(extra, sizeof extra, ",\n \"family_size\": %zu, \"shard_done\": %zu, \"shard_size\": %zu, \"deadline_hit\": %s", N, done, mine.size(), deadline_hit ? "true" : "false");
    total.write_json(out, extra);
    return 0;
  }

  // a batch died: find the grammar, then the (ov,tm,cm) variant, then the input, then the
  // single (flags, alloc mode) case; a failing single case is replayed before it is reported.
  // Counters are merged only from sub-runs that completed.
  static void merge(Report &into, const Report &r) {
    for (auto &kv : r.counters) into.counters[kv.first] += kv.second;
    for (auto &v : r.violations) if (into.violations.size() < into.max_viol) into.violations.push_back(v);
    for (auto &v : r.known) if (into.known.size() < into.max_viol) into.known.push_back(v);
  }
  bool try_run(const GramCfg &c, long gi, Report &total, ChildRes *crp = nullptr, int tmo = 0) {
    GramEngine sub = *this; sub.cfg = c; sub.cfg.verbose = false;
    Report tmp;
    ChildRes cr = run_child([&](Report &r) { sub.run_grammar(gi, r); }, tmp, tmo ? tmo : cfg.timeout);
    if (crp) *crp = cr;
    if (cr.ok) merge(total, tmp);
    return cr.ok;
  }
  void isolate(const std::vector<long> &mine, size_t b, size_t e, Report &total) {
    for (size_t k = b; k < e; k++) {
      long gi = mine[k];
      if (cfg.deadline > 0 && now_s() > cfg.deadline) { total.add("deadline_hit_inside_grammar"); return; }
      GramCfg c0 = cfg; c0.only_gi = gi;
      int gtmo = within_deadline(grammar_timeout(gi));
      ChildRes cr0;
      if (try_run(c0, gi, total, &cr0, gtmo)) continue;
      if (cfg.deadline > 0 && now_s() > cfg.deadline) { total.add("deadline_hit_inside_grammar"); return; }
      if (cr0.timeout) {   // slow is not wrong: once more with a tenfold watchdog before anything is called a hang
        gtmo = within_deadline(gtmo * 10);
        if (try_run(c0, gi, total, &cr0, gtmo)) { total.add("slow_grammars"); continue; }
        if (cfg.deadline > 0 && now_s() > cfg.deadline) { total.add("deadline_hit_inside_grammar"); return; }
      }
      int reported = 0;
      Skel sk; if (fam) sk = fam->skels[gi];
      std::vector<std::vector<int>> mvs;
      if (fam) mvs = menu_vectors(sk, cfg.tm_scheme); else mvs.push_back({});
      int T = fam ? fam->sp.T : cur_T(gi);
      for (int ov : cfg.ovs) for (auto &tm : mvs) for (int cm : cfg.cms) {
        if (!fam && (ov || cm)) continue;
        GramCfg c1 = c0; c1.only_ov = ov; c1.only_tm = fam ? ints_dot(tm) : ""; c1.only_cm = cm;
        if (try_run(c1, gi, total, nullptr, gtmo)) continue;
        if (cfg.deadline > 0 && now_s() > cfg.deadline) { total.add("deadline_hit_inside_grammar"); return; }
        if (reported >= 10) { total.add("failing_grammar_variants_not_isolated"); continue; }
        bool found = false;
        std::vector<int> w;
        for (int len = 0; len <= cfg.nmax && reported < 10; len++) {
          if (len > 0 && T == 0) break;
          w.assign(len, 0);
          for (;;) {
            if (cfg.deadline > 0 && now_s() > cfg.deadline) { total.add("deadline_hit_inside_grammar"); return; }
            GramCfg c2 = c1; c2.only_in = ints_comma(w);
            if (!try_run(c2, gi, total)) {
              bool single = false;
              for (auto &f : cfg.flags) for (int am : cfg.alloc_modes) {
                GramCfg c3 = c2; c3.only_fl = flags_str(f); c3.only_am = am; c3.fresh = true;
                ChildRes cr;
                if (try_run(c3, gi, total, &cr)) continue;
                ChildRes cr2; Report dummy;
                if (try_run(c3, gi, dummy, &cr2, cr.timeout ? cfg.timeout * 10 : cfg.timeout)) {
                  if (cr.timeout) { total.add("slow_cases"); continue; }
                  // The harness has no clock, randomness or threads: a crash that does not repeat on the same
                  // case means the library corrupted memory (e.g. a double free that the allocator only
                  // sometimes notices).  It is reported, marked as not reproducible.
                  single = found = true;
                  cr.err_tail = "(crashed once, passed on replay - memory corruption with allocator-dependent effect) " + cr.err_tail;
                  if (reported++ < 10) report_crash(gi, c3, cr, total);
                  total.add("crashes_not_reproduced_on_replay");
                  continue;
                }
                single = found = true;
                if (reported++ < 10) report_crash(gi, c3, cr2, total); else total.add("crash_cases_not_reported");
              }
              if (!single) {  // only the sequence of parses on one object fails
                ChildRes cr2; Report dummy;
                ChildRes crx; Report d0; try_run(c2, gi, d0, &crx);
                if (try_run(c2, gi, dummy, &cr2)) { cr2 = crx; cr2.err_tail = "(failed, then passed on replay - memory corruption with allocator-dependent effect) " + cr2.err_tail; total.add("crashes_not_reproduced_on_replay"); }
                found = true;
                if (reported++ < 10) report_crash(gi, c2, cr2, total, true);
              }
            }
            int q = len - 1;
            while (q >= 0 && ++w[q] == T) { w[q] = 0; q--; }
            if (q < 0 || reported >= 10) break;
          }
        }
        if (!found && reported < 10) {
          ChildRes cr2; Report dummy;
          if (try_run(c1, gi, dummy, &cr2, gtmo)) { cr2.err_tail = "(failed, then passed on replay - memory corruption with allocator-dependent effect) " + cr2.err_tail; cr2.sig = cr2.sig ? cr2.sig : 6; total.add("crashes_not_reproduced_on_replay"); }
          reported++;
          report_crash(gi, c1, cr2, total, true);
        }
      }
    }
  }

  void report_crash(long gi, const GramCfg &sc, const ChildRes &cr, Report &total, bool history = false) {
    std::vector<int> tm; for (auto &x : split(sc.only_tm, '.')) tm.push_back(atoi(x.c_str()));
    Gram g = build(gi, std::max(0, sc.only_ov), tm, std::max(0, sc.only_cm));
    std::string addr = "family=" + cfg.family + " gi=" + std::to_string(gi) + " ov=" + std::to_string(std::max(0, sc.only_ov)) + " tm=" + sc.only_tm + " cm=" + std::to_string(std::max(0, sc.only_cm));
    std::vector<int> w, codes_in;
    if (!sc.only_in.empty()) {
      addr += " in=" + sc.only_in;
      if (sc.only_in != "-") for (auto &x : split(sc.only_in, ',')) { w.push_back(atoi(x.c_str())); codes_in.push_back(g.terms[w.back()].second); }
    }
    if (!sc.only_fl.empty()) addr += " fl=" + sc.only_fl + " am=" + std::to_string(sc.only_am);
    std::string prop = first_prop();
    std::string kind = cr.timeout ? "hang" : "crash";
    if (history) kind += "-history";
    std::string detail = child_failure_text(cr) + (history ? " (no single parse fails on a fresh object: only the sequence of parses on one object does)" : "") + (cr.err_tail.empty() ? "" : "; stderr: " + cr.err_tail.substr(0, 1500));
    Flags f; if (!sc.only_fl.empty()) parse_flags(sc.only_fl, f);
    std::string kf = history ? "" : classify_known_crash(cfg.known_enabled, prop, g, w, f);
    std::string js = viol_json(prop, kind, addr, g, codes_in, sc.only_fl, detail);
    if (!kf.empty()) { js.insert(js.size() - 1, ",\"finding\":" + jstr(kf)); total.knownf(js); total.add("known_" + kf); }
    else total.viol(js);
  }

  std::string first_prop() const {
    for (int p = 1; p < 20; p++) if (cfg.props & (1 << p)) { char b[8]; snprintf(b, sizeof b, "C%02d", p); return b; }
    return "C12";
  }
  static void parse_flags(const std::string &s, Flags &f) { sscanf(s.c_str(), "la%d.one%d.cost%d.rec%d.m%d.d%d", &f.la, &f.one, &f.cost, &f.rec, &f.match, &f.debug); }
};

// ---- C09: exhaustively generated repetitive inputs (many repeated fragments, hundreds to thousands of tokens)
struct RepSpec { int cur; std::vector<std::string> frags; std::string join; std::vector<std::string> bad; };
static std::vector<int> toks_of(const std::string &s) { std::vector<int> v; for (char c : s) v.push_back((unsigned char) c); return v; }
// structural hash of the returned graph (used instead of Den strings on long inputs)
static unsigned long tree_hash(const yaep_tree_node *n, std::map<const yaep_tree_node *, unsigned long> &memo, int ntoks, int depth = 0) {
  if (!n) return 7;
  auto it = memo.find(n); if (it != memo.end()) return it->second;
  if (depth > 100000) return 13;
  unsigned long h = 1469598103934665603ULL;
  auto mix = [&](unsigned long v) { h = (h ^ v) * 1099511628211ULL; };
  mix((unsigned long) n->type);
  switch (n->type) {
  case YAEP_TERM: mix((unsigned long) n->val.term.code); mix((unsigned long) (attr_to_idx(n->val.term.attr, ntoks) + 5)); break;
  case YAEP_ANODE: { for (const char *c = n->val.anode.name; *c; c++) mix((unsigned char) *c); mix((unsigned long) n->val.anode.cost); for (yaep_tree_node **c = n->val.anode.children; *c; c++) mix(tree_hash(*c, memo, ntoks, depth + 1)); break; }
  case YAEP_ALT: { unsigned long sum = 0; for (const yaep_tree_node *a = n; a && a->type == YAEP_ALT; a = a->val.alt.next) sum += tree_hash(a->val.alt.node, memo, ntoks, depth + 1); mix(sum); break; }
  default: break;
  }
  return memo[n] = h;
}
static std::string obs_digest(const ParseObs &o, int ntoks, bool with_tree, bool loose = false) {
  std::ostringstream os;
  os << "rc=" << o.rc << " amb=" << o.amb << " root=" << (o.root ? 1 : 0);
  for (auto &e : o.errs) os << " err(" << e.err << "@" << e.err_a << "," << e.ign << "," << e.rec << ")";
  if (with_tree && o.rc == 0 && o.root && ntoks > 400) { std::map<const yaep_tree_node *, unsigned long> memo; os << " treehash=" << tree_hash(o.root, memo, loose ? 0 : ntoks) << " nodes=" << memo.size(); }
  else if (with_tree && o.rc == 0 && o.root) { DenRes d = denote(o.root, ntoks, true); size_t h = 1469598103934665603ULL; for (auto &t0 : d.trees) { std::string t = loose ? strip_idx(t0) : t0; for (char c : t) h = (h ^ (unsigned char) c) * 1099511628211ULL; } os << " trees=" << d.trees.size() << "#" << h; for (auto &s : d.shape) os << " shape:" << s; if (d.capped) os << " capped"; }
  return os.str();
}
static void run_repetitive(int shard, int nshards, int r, int target_len, const std::set<std::string> &known, Report &rep, int props = P09) {
  std::vector<Gram> cur = curated_grammars();
  std::vector<RepSpec> specs = {
    {0, {"a", "a+a", "(a)", "a*a", "(a+a)*a"}, "+", {")", "+", "(", ""}},
    {1, {"a", "a+a", "a*a"}, "*", {"+", ""}},
    {13, {"x", "x,x"}, ",", {",", ""}},
    {14, {"x", "x,x"}, ",", {",", ""}},
    {10, {"x;", "x;x;"}, "", {"x", ";", "xx;", ""}},
    {27, {"k(xy)", "k[xy]", "k(xy)k(xy)"}, "", {"k(xy]", "k[xy)", ""}},
  };
  long idx = 0;
  // the 200-rule ANSI C grammar of the test suite on test.i (description and token codes are produced at
  // build time from /repo/test, see bin/vcheck gen_ansic): whole file and its first half / quarter
  if ((props & P09) && getenv("VERIF_ANSIC_DESC") && getenv("VERIF_ANSIC_TOKS") && shard == 0) {
    std::string desc; { FILE *f = fopen(getenv("VERIF_ANSIC_DESC"), "r"); if (f) { char b[65536]; size_t k; while ((k = fread(b, 1, sizeof b, f)) > 0) desc.append(b, k); fclose(f); } }
    std::vector<int> all; { FILE *f = fopen(getenv("VERIF_ANSIC_TOKS"), "r"); int c; if (f) { while (fscanf(f, "%d", &c) == 1) all.push_back(c); fclose(f); } }
    if (!desc.empty() && all.size() > 1000) {
      for (size_t cut : {all.size() / 4, all.size() / 2, all.size()}) {
        std::vector<int> in(all.begin(), all.begin() + cut);
        std::string first, firstfl;
        for (int la : {0, 1, 2}) {
          void *y = vy_create();
          if (define_by_text(y, desc, 1) != 0) machinery_error(std::string("ANSI C description of the test suite rejected: ") + vy_error_message(y));
          Flags f; f.la = la; f.one = 1; f.rec = 1; apply_flags(y, f);
          g_trk.reset();
          long mm0 = yaep_verif_cache_mismatches, hh0 = yaep_verif_cache_hits;
          yaep_verif_cache_check = 1;
          ParseObs o = run_parse(y, in, 0);
          yaep_verif_cache_check = 0;
          rep.add("parses"); rep.add("inputs"); rep.add("c09_long_tokens", (long) in.size()); rep.add("c09_ansic_parses");
          if (o.rc == 0 && o.errs.empty() && o.root) rep.add("c09_ansic_clean_parses");
          if (cut == all.size() && (o.rc != 0 || !o.errs.empty())) machinery_error("test.i is not parsed cleanly by the test suite's ANSI C grammar: rc=" + std::to_string(o.rc) + " errors=" + std::to_string(o.errs.size()));
          rep.add("c09_cache_hits_checked", yaep_verif_cache_hits - hh0);
          std::string addr = "ansic la=" + std::to_string(la) + " tokens=" + std::to_string(in.size());
          auto V = [&](const std::string &kind, const std::string &detail) { rep.viol("{\"property\":\"C09\",\"kind\":" + jstr(kind) + ",\"engine\":\"gram\",\"case\":" + jstr(addr) + ",\"grammar\":\"ANSI C grammar of test/C/test41.c\",\"tokens\":\"test/test.i\",\"detail\":" + jstr(detail) + "}"); };
          if (yaep_verif_cache_mismatches != mm0) V("cached-set-differs", std::to_string(yaep_verif_cache_mismatches - mm0) + " of " + std::to_string(yaep_verif_cache_hits - hh0) + " cache hits gave a set different from the recomputed one");
          std::string dg = obs_digest(o, (int) in.size(), true);
          if (first.empty()) { first = dg; firstfl = addr; } else { rep.add("c09_comparisons"); if (dg != first) V("differs-across-levels", "[" + dg.substr(0, 300) + "] vs [" + first.substr(0, 300) + "] of " + firstfl); }
          vy_free(y);
        }
      }
      rep.sample("{\"grammar\":\"ANSI C (test41.c)\",\"input\":\"test.i\",\"tokens\":" + std::to_string(all.size()) + "}");
    }
  }
  for (auto &sp : specs) {
    const Gram &g = cur[sp.cur];
    // all concatenations of 1..r fragments (with joiner), optionally one bad fragment inserted at each position
    std::vector<std::vector<int>> seqs; std::vector<int> c(1, 0);
    for (int len = 1; len <= r; len++) { c.assign(len, 0); for (;;) { seqs.push_back(c); int k = len - 1; while (k >= 0 && ++c[k] == (int) sp.frags.size()) { c[k] = 0; k--; } if (k < 0) break; } }
    for (auto &sq : seqs) for (size_t bi = 0; bi < sp.bad.size(); bi++) for (size_t bpos = 0; bpos <= (sp.bad[bi].empty() ? 0 : sq.size()); bpos++) {
      if ((idx++ % nshards) != shard) continue;
      std::string unit;
      for (size_t k = 0; k < sq.size(); k++) { if (k == bpos && !sp.bad[bi].empty()) unit += sp.bad[bi]; if (k) unit += sp.join; unit += sp.frags[sq[k]]; }
      if (bpos == sq.size() && !sp.bad[bi].empty()) unit += sp.bad[bi];
      for (int tl : {0, target_len}) {
        if (getenv("VERIF_TRACE")) { fprintf(stderr, "rep cur=%d unit=%s tl=%d\n", sp.cur, unit.c_str(), tl); }
        // long form: the (possibly offending) unit once, then clean periods: recurring errors closer than
        // recovery_match tokens make yaep's recovery search exponential (known finding D33), so dense errors
        // are only explored on the short forms
        std::string clean; for (size_t k = 0; k < sq.size(); k++) { if (k) clean += sp.join; clean += sp.frags[sq[k]]; }
        std::string text = unit;
        while ((int) text.size() < tl) text += sp.join + clean;
        std::vector<int> in = toks_of(text);
        bool ok_codes = true; for (int t : in) { bool f = false; for (auto &tt : g.terms) if (tt.second == t) f = true; if (!f) ok_codes = false; }
        if (!ok_codes) machinery_error("repetitive input uses an undeclared code: " + text);
        std::string first, firstfl, first_loose;
        // C01 / C06 on the short forms: verdict and first error position against the reference (the inputs
        // repeat fragments, so the (set, terminal, lookahead) cache is exercised, unlike inputs of length <= 6)
        int ferr = -2; bool refck = (props & (P01 | P06)) && (int) in.size() <= 30;   // the reference keeps position sets in 32-bit words
        if (refck) {
          std::vector<int> w; for (int t : in) for (size_t k = 0; k < g.terms.size(); k++) if (g.terms[k].second == t) { w.push_back((int) k); break; }
          ferr = first_error_index(g, w);
          rep.add(ferr == -1 ? "rep_sentences" : "rep_nonsentences");
        }
        for (int one : {1, 0}) {
          if (!one && (int) in.size() > 14) continue;   // all-parses DAG expansion only on the short forms
          first.clear();
          for (int la : {0, 1, 2}) {
            void *y = vy_create();
            if (define_by_callbacks(y, g, 0) != 0) machinery_error("curated grammar rejected");
            Flags f; f.la = la; f.one = one; f.rec = 1; f.match = 3; apply_flags(y, f);
            g_trk.reset();
            long mm0 = yaep_verif_cache_mismatches, hh0 = yaep_verif_cache_hits;
            yaep_verif_cache_check = 1;
            ParseObs o = run_parse(y, in, 0);
            yaep_verif_cache_check = 0;
            rep.add("parses"); rep.add("inputs"); rep.add("c09_long_tokens", (long) in.size());
            rep.add("c09_cache_hits_checked", yaep_verif_cache_hits - hh0);
            std::string addr = "repetitive cur=" + std::to_string(sp.cur) + " la=" + std::to_string(la) + " one=" + std::to_string(one) + " len=" + std::to_string(in.size());
            auto V = [&](const std::string &kind, const std::string &detail) { rep.viol("{\"property\":\"C09\",\"kind\":" + jstr(kind) + ",\"engine\":\"gram\",\"case\":" + jstr(addr) + ",\"grammar\":" + jstr(gram_to_string(g)) + ",\"tokens\":" + jstr(text.substr(0, 300)) + ",\"detail\":" + jstr(detail) + "}"); };
            if (yaep_verif_cache_mismatches != mm0) V("cached-set-differs", "a cached successor set differs from the freshly computed one (" + std::to_string(yaep_verif_cache_mismatches - mm0) + " of " + std::to_string(yaep_verif_cache_hits - hh0) + " hits) on input " + text.substr(0, 200));
            std::string dg = obs_digest(o, (int) in.size(), true);
            if (first.empty()) { first = dg; firstfl = addr; first_loose = obs_digest(o, (int) in.size(), true, true); }
            else {
              rep.add("c09_comparisons");
              if (dg != first) {
                // D20 class: recovered parse, observations equal once the attribute index of TERM nodes is ignored
                bool d20 = known.count("D20") && !o.errs.empty() && obs_digest(o, (int) in.size(), true, true) == first_loose;
                if (d20) { rep.add("known_D20"); rep.knownf("{\"property\":\"C09\",\"kind\":\"differs-across-levels\",\"case\":" + jstr(addr) + ",\"finding\":\"D20\"}"); }
                else V("differs-across-levels", "observation [" + dg.substr(0, 300) + "] differs from [" + first.substr(0, 300) + "] of " + firstfl + " on input " + text.substr(0, 200));
              }
            }
            if (!o.errs.empty()) rep.add("c09_long_inputs_with_recovery");
            if (refck) {
              auto VP = [&](const std::string &prop, const std::string &kind, const std::string &detail) { rep.viol("{\"property\":" + jstr(prop) + ",\"kind\":" + jstr(kind) + ",\"engine\":\"gram\",\"case\":" + jstr(addr) + ",\"grammar\":" + jstr(gram_to_string(g)) + ",\"tokens\":" + jstr(text.substr(0, 300)) + ",\"detail\":" + jstr(detail) + "}"); };
              if (props & P01) {
                rep.add("c01_rep_cases");
                if (o.rc != 0) VP("C01", "nonzero-return", "yaep_parse returned " + std::to_string(o.rc) + " on declared tokens: " + text);
                else if (ferr == -1 && (!o.errs.empty() || o.root == NULL)) VP("C01", "sentence-rejected", "recovery on, sentence " + text + ": " + std::to_string(o.errs.size()) + " syntax_error calls, root " + (o.root ? "non-NULL" : "NULL"));
                else if (ferr != -1 && o.errs.empty()) VP("C01", "nonsentence-accepted", "recovery on, non-sentence " + text + ": no syntax_error call");
              }
              if ((props & P06) && ferr != -1 && o.rc == 0) {
                rep.add("c06_cases"); rep.add("c06_rep_cases");
                if (o.errs.empty()) VP("C06", "no-callback", "non-sentence " + text + " without any syntax_error call");
                else if (o.errs[0].err != ferr) VP("C06", "first-error-position", "first syntax_error reports token " + std::to_string(o.errs[0].err) + " of " + text + ", the first token that no sentence can contain at that place is " + std::to_string(ferr));
              }
            }
            vy_free(y);
          }
        }
      }
      if (rep.samples.size() < 3) rep.sample("{\"grammar\":" + jstr(gram_to_string(g)) + ",\"unit\":" + jstr(unit) + ",\"extended_to_tokens\":" + std::to_string(target_len) + "}");
    }
  }
}

static FamilySpec family_spec(const std::string &name) {
  if (name == "q") return FamilySpec{2, 2, 3, 2, 7, false};
  if (name == "qe") return FamilySpec{2, 2, 3, 2, 7, true};
  if (name == "t1") return FamilySpec{2, 2, 4, 3, 9, false};
  if (name == "t2") return FamilySpec{2, 3, 4, 2, 9, false};
  if (name == "q3") return FamilySpec{2, 2, 2, 3, 7, false};
  if (name == "q3e") return FamilySpec{2, 2, 2, 3, 7, true};
  if (name == "mini") return FamilySpec{1, 2, 2, 2, 5, false};
  if (name == "minie") return FamilySpec{1, 2, 2, 2, 5, true};
  machinery_error("unknown family " + name);
}

int eng_gram_main(int argc, char **argv) {
  Args a(argc, argv, 2);
  GramEngine E;
  GramCfg &c = E.cfg;
  c.family = a.get("family", "q");
  for (auto &p : split(a.get("props", "C01"), ',')) c.props |= 1 << atoi(p.c_str() + 1);
  c.nmax = (int) a.geti("n", 4);
  c.tm_scheme = a.get("tm", "u0");
  if (a.has("cms")) { c.cms.clear(); for (auto &s : split(a.get("cms"), ',')) c.cms.push_back(atoi(s.c_str())); }
  if (a.has("ams")) { c.alloc_modes.clear(); for (auto &s : split(a.get("ams"), ',')) c.alloc_modes.push_back(atoi(s.c_str())); }
  if (a.has("ovs")) { c.ovs.clear(); for (auto &s : split(a.get("ovs"), ',')) c.ovs.push_back(atoi(s.c_str())); }
  c.fresh = a.has("fresh");
  c.digest = a.has("digest");
  c.batch = (int) a.geti("batch", 16);
  c.timeout = (int) a.geti("timeout", 20);
  c.verbose = a.has("verbose");
  if (a.has("deadline")) c.deadline = now_s() + a.geti("deadline", 0);
  c.maxin = a.geti("maxin", 60000);
  for (auto &s : split(a.get("known", ""), ',')) c.known_enabled.insert(s);
  // flag vectors: product of the listed values
  auto ints = [&](const std::string &k, const std::string &d) { std::vector<int> v; for (auto &s : split(a.get(k, d), ',')) v.push_back(atoi(s.c_str())); return v; };
  for (int la : ints("la", "0,1,2")) for (int one : ints("one", "0,1")) for (int cost : ints("cost", "0,1")) for (int rec : ints("rec", "0,1"))
    for (int m : ints("match", "3")) for (int dbg : ints("debug", "0")) { Flags f; f.la = la; f.one = one; f.cost = cost; f.rec = rec; f.match = m; f.debug = dbg; c.flags.push_back(f); }
  c.only_gi = a.geti("gi", -1);
  c.only_tm = a.get("otm", ""); c.only_in = a.get("in", ""); c.only_fl = a.get("fl", "");
  c.only_cm = (int) a.geti("ocm", -1); c.only_ov = (int) a.geti("oov", -1); c.only_am = (int) a.geti("oam", -1);
  if (c.family == "rep") {
    int si = 0, sn = 1; sscanf(a.get("shard", "0/1").c_str(), "%d/%d", &si, &sn);
    Report total;
    int r = (int) a.geti("r", 3), tl = (int) a.geti("len", 300);
    ChildRes cr = run_child([&](Report &rp) { run_repetitive(si, sn, r, tl, c.known_enabled, rp, c.props); }, total, 3000);
    std::string crash_prop = (c.props & P09) ? "C09" : (c.props & P06) ? "C06" : "C01";
    if (!cr.ok) total.viol("{\"property\":" + jstr(crash_prop) + ",\"kind\":\"crash\",\"engine\":\"gram\",\"case\":\"repetitive inputs\",\"grammar\":\"\",\"tokens\":\"\",\"detail\":" + jstr(child_failure_text(cr) + "; stderr: " + cr.err_tail.substr(0, 1500)) + "}");
    total.write_json(a.get("out", "/dev/stdout"), ",\n \"deadline_hit\": false");
    return 0;
  }
  if (c.family == "cur") E.curated = curated_grammars();
  else if (c.family == "ch3" || c.family == "ch4" || c.family == "ch4s") { E.chain_k = c.family[2] - '0'; E.chain_slim = c.family == "ch4s"; }
  else E.fam = new Family(family_spec(c.family));
  if (a.has("count")) { printf("%zu\n", E.n_skels()); return 0; }
  std::string shard = a.get("shard", "0/1");
  int si = 0, sn = 1; sscanf(shard.c_str(), "%d/%d", &si, &sn);
  return E.main_loop(si, sn, a.get("out", "/dev/stdout"));
}
