// Reference model: an independent, deliberately naive definition of "derivation",
// "translation", "cost", "viable prefix".  No yaep code, no Earley sets: span fixpoints
// and plain recursion, only ever run on tiny inputs.
#pragma once
#include "gram.hpp"
#include <map>
#include <set>
#include <string>
#include <vector>
#include <cstring>

static const long CNT_CAP = 1L << 40;
static const size_t TS_CAP = 20000;

struct TV {               // one translation
  std::string own;        // canonical string with each anode's own cost
  std::string tot;        // same with subtree totals in the cost field
  long cost;              // total cost (sum of own costs of all anodes in the tree)
  bool operator<(const TV &o) const { return own < o.own; }
  bool operator==(const TV &o) const { return own == o.own; }
};

struct SpanVal {
  long cnt = 0;               // number of derivations (saturating)
  std::vector<TV> trs;        // set of translations, sorted by `own', unique
  bool capped = false;
};

static const int EOFSYM = -1;   // end marker in reference token strings

// Reference parser for a grammar g over an input u of symbol ids (terminals, ERR, EOFSYM).
// `extra' adds the augmented rules used by recovery reasoning (see RefAug below).
struct Ref {
  const Gram &g;
  std::vector<int> u;            // input symbols
  std::vector<int> uidx;         // for each position, original token index (for T(code@idx))
  int n;
  int NN;                        // number of nonterminals
  // D[A][i] = bitmask over j: A derives u[i..j)
  std::vector<std::vector<uint32_t>> D;
  bool cyclic = false;           // some A =>+ A met while enumerating trees
  bool capped = false;
  std::map<std::tuple<int,int,int>, SpanVal> memo;
  std::set<std::tuple<int,int,int>> inprog;

  Ref(const Gram &g_, const std::vector<int> &u_, const std::vector<int> *idx = nullptr)
      : g(g_), u(u_), n((int) u_.size()), NN((int) g_.nts.size()) {
    if (idx) uidx = *idx; else { uidx.resize(n); for (int i = 0; i < n; i++) uidx[i] = i; }
    D.assign(NN, std::vector<uint32_t>(n + 1, 0));
    fix();
  }
  // set of end positions reachable from position set `from' through symbol s
  uint32_t step(int s, uint32_t from) const {
    uint32_t out = 0;
    for (int p = 0; p <= n; p++) if (from >> p & 1) {
      if (g.is_term(s)) { if (p < n && u[p] == s) out |= 1u << (p + 1); }
      else out |= D[g.nt_index(s)][p];
    }
    return out;
  }
  void fix() {
    bool ch = true;
    while (ch) {
      ch = false;
      for (auto &r : g.rules)
        for (int i = 0; i <= n; i++) {
          uint32_t cur = 1u << i;
          for (int s : r.rhs) { cur = step(s, cur); if (!cur) break; }
          if (cur & ~D[r.lhs][i]) { D[r.lhs][i] |= cur; ch = true; }
        }
    }
  }
  bool derives(int sym, int i, int j) const {
    if (g.is_term(sym)) return j == i + 1 && i < n && u[i] == sym;
    return D[g.nt_index(sym)][i] >> j & 1;
  }
  bool sentence() const { return derives(g.NT(g.start()), 0, n); }

  static TV nilv() { return TV{"N", "N", 0}; }

  // all translations / derivation count of symbol over span
  const SpanVal &span(int sym, int i, int j) {
    auto key = std::make_tuple(sym, i, j);
    auto it = memo.find(key);
    if (it != memo.end()) return it->second;
    SpanVal v;
    if (g.is_term(sym)) {
      if (derives(sym, i, j)) {
        v.cnt = 1;
        TV t;
        if (sym == g.ERR()) t = TV{"E", "E", 0};
        else { t.own = "T(" + std::to_string(g.terms[sym].second) + "@" + std::to_string(uidx[i]) + ")"; t.tot = t.own; t.cost = 0; }
        v.trs.push_back(t);
      }
      return memo[key] = v;
    }
    if (!derives(sym, i, j)) return memo[key] = v;
    if (inprog.count(key)) { cyclic = true; static SpanVal empty; return empty; }
    inprog.insert(key);
    int A = g.nt_index(sym);
    std::set<TV> acc;
    for (size_t ri = 0; ri < g.rules.size(); ri++) {
      const Rule &r = g.rules[ri];
      if (r.lhs != A) continue;
      std::vector<int> cut(r.rhs.size() + 1);
      cut[0] = i;
      splits(r, 0, cut, j, v, acc);
    }
    inprog.erase(key);
    v.trs.assign(acc.begin(), acc.end());
    if (v.capped) capped = true;
    return memo[key] = v;
  }

  // can rhs[t..] derive u[p..j) ?
  bool tail_ok(const Rule &r, size_t t, int p, int j) const {
    uint32_t cur = 1u << p;
    for (size_t k = t; k < r.rhs.size(); k++) { cur = step(r.rhs[k], cur); if (!cur) return false; }
    return cur >> j & 1;
  }

  void splits(const Rule &r, size_t t, std::vector<int> &cut, int j, SpanVal &v, std::set<TV> &acc) {
    if (t == r.rhs.size()) {
      if (cut[t] != j) return;
      combine(r, cut, v, acc);
      return;
    }
    for (int q = cut[t]; q <= j; q++) {
      if (!derives(r.rhs[t], cut[t], q)) continue;
      if (!tail_ok(r, t + 1, q, j)) continue;
      cut[t + 1] = q;
      splits(r, t + 1, cut, j, v, acc);
    }
  }

  void combine(const Rule &r, const std::vector<int> &cut, SpanVal &v, std::set<TV> &acc) {
    // derivation count: product over all children
    long c = 1;
    std::vector<const SpanVal *> ch(r.rhs.size());
    for (size_t t = 0; t < r.rhs.size(); t++) {
      ch[t] = &span(r.rhs[t], cut[t], cut[t + 1]);
      if (cyclic) return;
      long k = ch[t]->cnt;
      c = (c >= CNT_CAP || k >= CNT_CAP || c * k >= CNT_CAP) ? CNT_CAP : c * k;
      if (ch[t]->capped) v.capped = true;
    }
    v.cnt = (v.cnt + c >= CNT_CAP) ? CNT_CAP : v.cnt + c;
    if (c == 0) return;
    if (!r.anode) {
      if (r.transl.empty() || r.transl[0] == NILTR) { acc.insert(nilv()); return; }
      int k = r.transl[0];
      for (auto &t : ch[k]->trs) { if (acc.size() >= TS_CAP) { v.capped = true; break; } acc.insert(t); }
      return;
    }
    // abstract node: product over translation elements
    std::vector<TV> cur;
    cur.push_back(TV{"", "", 0});
    for (size_t e = 0; e < r.transl.size(); e++) {
      std::vector<TV> nxt;
      static const std::vector<TV> nilset{nilv()};
      const std::vector<TV> &opts = (r.transl[e] == NILTR) ? nilset : ch[r.transl[e]]->trs;
      for (auto &a : cur) for (auto &b : opts) {
        if (nxt.size() >= TS_CAP) { v.capped = true; break; }
        TV t;
        t.own = a.own + (e ? "," : "") + b.own;
        t.tot = a.tot + (e ? "," : "") + b.tot;
        t.cost = a.cost + b.cost;
        nxt.push_back(t);
      }
      cur.swap(nxt);
    }
    for (auto &a : cur) {
      if (acc.size() >= TS_CAP) { v.capped = true; break; }
      TV t;
      t.cost = a.cost + r.cost;
      t.own = "A(" + r.aname + ":" + std::to_string(r.cost) + ";" + a.own + ")";
      t.tot = "A(" + r.aname + ":" + std::to_string(t.cost) + ";" + a.tot + ")";
      acc.insert(t);
    }
  }

  const SpanVal &root() { return span(g.NT(g.start()), 0, n); }
};

// ---------------------------------------------------------------------------------
// Grammar-level facts (no input): nullable, productive, reachable, loops; used for WF.
struct GFacts {
  std::vector<char> nullable, productive, reachable, loop;
  explicit GFacts(const Gram &g) {
    int NN = (int) g.nts.size();
    nullable.assign(NN, 0); productive.assign(NN, 0); reachable.assign(NN, 0); loop.assign(NN, 0);
    bool ch = true;
    while (ch) {
      ch = false;
      for (auto &r : g.rules) {
        bool e = true, p = true;
        for (int s : r.rhs) {
          if (g.is_term(s)) e = false;
          else { e = e && nullable[g.nt_index(s)]; p = p && productive[g.nt_index(s)]; }
        }
        if (e && !nullable[r.lhs]) { nullable[r.lhs] = 1; ch = true; }
        if (p && !productive[r.lhs]) { productive[r.lhs] = 1; ch = true; }
      }
    }
    if (!g.rules.empty()) {
      reachable[g.start()] = 1;
      ch = true;
      while (ch) {
        ch = false;
        for (auto &r : g.rules) if (reachable[r.lhs])
          for (int s : r.rhs) if (!g.is_term(s) && !reachable[g.nt_index(s)]) { reachable[g.nt_index(s)] = 1; ch = true; }
      }
    }
    // unit-step graph: A -> B if A : x B y with x, y nullable (all symbols nonterminal nullable)
    std::vector<std::vector<char>> reach(NN, std::vector<char>(NN, 0));
    for (auto &r : g.rules)
      for (size_t i = 0; i < r.rhs.size(); i++) {
        if (g.is_term(r.rhs[i])) continue;
        bool ok = true;
        for (size_t k = 0; k < r.rhs.size(); k++) if (k != i) {
          int s = r.rhs[k];
          if (g.is_term(s) || !nullable[g.nt_index(s)]) { ok = false; break; }
        }
        if (ok) reach[r.lhs][g.nt_index(r.rhs[i])] = 1;
      }
    for (int k = 0; k < NN; k++) for (int i = 0; i < NN; i++) for (int j = 0; j < NN; j++)
      if (reach[i][k] && reach[k][j]) reach[i][j] = 1;
    for (int i = 0; i < NN; i++) loop[i] = reach[i][i];
  }
  bool any_loop() const { for (char c : loop) if (c) return true; return false; }
};

// ---------------------------------------------------------------------------------
// Derivation facts used only by the known-finding class predicates (known.hpp): which rule
// instances (rule, i, j) occur in some derivation of the whole input, with which split
// vectors, and from which parent slots they are referenced.
struct DerivFacts {
  struct Inst { int r, i, j; std::vector<std::vector<int>> cuts; };
  std::map<std::tuple<int,int,int>, Inst> insts;                       // (rule, i, j)
  std::map<std::tuple<int,int,int>, std::set<std::tuple<int,int,int,int>>> parents;  // (sym,i,j) -> {(rule,i',j',t)}
  std::set<std::tuple<int,int,int>> reach;                             // (sym,i,j)
  Ref &R;
  explicit DerivFacts(Ref &R_) : R(R_) { if (R.sentence()) visit(R.g.NT(R.g.start()), 0, R.n); }
  void visit(int sym, int i, int j) {
    if (!reach.insert(std::make_tuple(sym, i, j)).second) return;
    if (R.g.is_term(sym)) return;
    int A = R.g.nt_index(sym);
    for (size_t ri = 0; ri < R.g.rules.size(); ri++) {
      const Rule &r = R.g.rules[ri];
      if (r.lhs != A) continue;
      std::vector<int> cut(r.rhs.size() + 1); cut[0] = i;
      rec(ri, r, 0, cut, j);
    }
  }
  void rec(size_t ri, const Rule &r, size_t t, std::vector<int> &cut, int j) {
    if (t == r.rhs.size()) {
      if (cut[t] != j) return;
      Inst &in = insts[std::make_tuple((int) ri, cut[0], j)];
      in.r = (int) ri; in.i = cut[0]; in.j = j; in.cuts.push_back(cut);
      std::vector<int> c = cut;   // cut is reused by the caller
      for (size_t k = 0; k < r.rhs.size(); k++) {
        parents[std::make_tuple(r.rhs[k], c[k], c[k + 1])].insert(std::make_tuple((int) ri, c[0], j, (int) k));
        visit(r.rhs[k], c[k], c[k + 1]);
      }
      return;
    }
    for (int q = cut[t]; q <= j; q++) {
      if (!R.derives(r.rhs[t], cut[t], q)) continue;
      if (!R.tail_ok(r, t + 1, q, j)) continue;
      cut[t + 1] = q;
      rec(ri, r, t + 1, cut, j);
    }
  }
  static bool translated(const Rule &r, int t) { for (int x : r.transl) if (x == t) return true; return false; }
  // F1: a rule instance with two split vectors that differ at the start of an untranslated
  // nonterminal while some symbol to its left is translated
  bool untranslated_multi_origin() const {
    for (auto &kv : insts) {
      const Inst &in = kv.second;
      const Rule &r = R.g.rules[in.r];
      if (in.cuts.size() < 2) continue;
      for (size_t t = 1; t < r.rhs.size(); t++) {
        if (R.g.is_term(r.rhs[t]) || translated(r, (int) t)) continue;
        bool left_translated = false;
        for (size_t k = 0; k < t; k++) if (translated(r, (int) k)) left_translated = true;
        if (!left_translated) continue;
        std::set<int> starts; for (auto &c : in.cuts) starts.insert(c[t]);
        if (starts.size() >= 2) return true;
      }
    }
    return false;
  }
  // contexts of (sym,i,j): the abstract-node child slots (parent rule instance, split vector,
  // position) that receive its translation, looking through rules without abstract node
  // that pass the translation of this symbol on; "root" is the context of the start symbol.
  std::map<std::tuple<int,int,int>, std::set<std::string>> ctxmemo;
  std::set<std::tuple<int,int,int>> ctxbusy;
  const std::set<std::string> &contexts(int sym, int i, int j) {
    auto key = std::make_tuple(sym, i, j);
    auto it = ctxmemo.find(key);
    if (it != ctxmemo.end()) return it->second;
    static const std::set<std::string> none;
    if (!ctxbusy.insert(key).second) return none;
    std::set<std::string> out;
    if (sym == R.g.NT(R.g.start()) && i == 0 && j == R.n) out.insert("root");
    auto pit = parents.find(key);
    if (pit != parents.end())
      for (auto &p : pit->second) {
        int pr = std::get<0>(p), pi = std::get<1>(p), pj = std::get<2>(p), t = std::get<3>(p);
        const Rule &r = R.g.rules[pr];
        if (!translated(r, t)) continue;
        if (r.anode) {
          const Inst &in = insts[std::make_tuple(pr, pi, pj)];
          for (auto &c : in.cuts) if (c[t] == i && c[t + 1] == j) {
            std::string s = std::to_string(pr) + ":" + std::to_string(t) + ":";
            for (int x : c) s += std::to_string(x) + ",";
            out.insert(s);
          }
        } else {
          for (auto &s : contexts(R.g.NT(r.lhs), pi, pj)) out.insert(s);
        }
      }
    ctxbusy.erase(key);
    return ctxmemo[key] = out;
  }
  // F2: an abstract-node rule instance with >= 2 split vectors whose translation is wanted in
  // >= 2 different abstract-node child slots
  bool shared_anode_multi_split() {
    for (auto &kv : insts) {
      const Inst &in = kv.second;
      const Rule &r = R.g.rules[in.r];
      if (!r.anode || in.cuts.size() < 2) continue;
      if (contexts(R.g.NT(r.lhs), in.i, in.j).size() >= 2) return true;
    }
    return false;
  }
};

// ---------------------------------------------------------------------------------
// Viable prefixes (appendix A.5): is u a prefix of a sentence of G'' ( = G with `error' as an
// ordinary terminal, start rule S'' : S $, plus S'' : error $ unless S has the rule S : error)?
struct RefVP {
  Ref R;
  GFacts F;
  std::vector<uint32_t> P;   // P[A] bit i: u[i..n) is a proper-or-empty prefix of a string derived from A ("straddles" the end)
  bool implicit_rule;
  RefVP(const Gram &g, const std::vector<int> &u) : R(g, u), F(g) {
    implicit_rule = true;
    for (auto &r : g.rules) if (r.lhs == g.start() && r.rhs.size() == 1 && r.rhs[0] == g.ERR()) implicit_rule = false;
    int n = R.n;
    P.assign(R.NN, 0);
    for (int A = 0; A < R.NN; A++) if (F.productive[A]) P[A] |= 1u << n;
    bool ch = true;
    while (ch) {
      ch = false;
      for (auto &r : g.rules) {
        // all symbols of the rule must be productive for the rule to take part in a sentence
        bool ok = true; for (int s : r.rhs) if (!g.is_term(s) && !F.productive[g.nt_index(s)]) ok = false;
        if (!ok) continue;
        for (int i = 0; i <= n; i++) {
          uint32_t cur = 1u << i;     // positions reachable after the symbols before j
          bool hit = false;
          for (size_t j = 0; j < r.rhs.size() && cur && !hit; j++) {
            int s = r.rhs[j];
            // symbol j straddles the end from some reachable position p
            for (int p = 0; p <= n && !hit; p++) if (cur >> p & 1) {
              if (g.is_term(s)) { if (p == n) hit = true; }
              else if (P[g.nt_index(s)] >> p & 1) hit = true;
            }
            cur = R.step(s, cur);
          }
          if (hit && !(P[r.lhs] >> i & 1)) { P[r.lhs] |= 1u << i; ch = true; }
        }
      }
    }
  }
  bool sentence() const {
    if (R.sentence()) return true;
    return implicit_rule && R.n == 1 && R.u[0] == R.g.ERR();
  }
  bool viable() const {
    if (R.n == 0) return true;                 // S'' : error $ exists or S productive; the empty prefix is always viable for an accepted grammar
    if (R.sentence()) return true;
    if (P[R.g.start()] & 1u) return true;
    return implicit_rule && R.n == 1 && R.u[0] == R.g.ERR();
  }
};
