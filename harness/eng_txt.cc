// Engine `txt': grammar descriptions as text.  (a) every grammar of a family printed under a
// product of lexical variations must define exactly what yaep_read_grammar defines for the
// denoted grammar; (b) every prefix and every single-character deletion / insertion /
// substitution of seed texts, and (c) every short byte string over a lexer-covering
// alphabet, judged by the three-valued reference reader (desc.hpp); (d) long symbol names
// through every message-producing error.  Serves C11 and C12.
#include "common.hpp"
#include "gram.hpp"
#include "ref.hpp"
#include "obs.hpp"
#include "desc.hpp"
#include "curated.hpp"

static const char ALPHA[] = {' ', '\n', ';', ':', '|', '#', '-', '(', ')', '=', '\'', '/', '*', 'a', 'T', '0', '9', '_', '$', (char) 0x80};
static const int NALPHA = 20;

#include <sys/mman.h>
static char *g_cur;   // shared memory: the case being executed, so that a crash can be attributed
static void note_case(const std::string &cs) { if (g_cur) { strncpy(g_cur, cs.c_str(), 1000); g_cur[1000] = 0; } }
static bool documented_code(int rc) { return rc >= 0 && rc <= 16 && rc != YAEP_NO_MEMORY && rc != YAEP_UNDEFINED_OR_BAD_GRAMMAR; }

// observation of a defined object on all inputs of length <= n over the given codes: all parses, cost flag on and off
static std::string behaviour(void *y, const std::vector<int> &codes, int n) {
  std::string out;
  std::vector<int> w;
  for (int cost = 0; cost < 2; cost++) {
    Flags f; f.one = 0; f.cost = cost; f.la = 1; f.rec = 1;
    apply_flags(y, f);
    for (int len = 0; len <= n; len++) {
      if (len > 0 && codes.empty()) break;
      w.assign(len, 0);
      for (;;) {
        std::vector<int> in(len); for (int i = 0; i < len; i++) in[i] = codes[w[i]];
        g_trk.reset();
        ParseObs o = run_parse(y, in, 0);
        out += "rc" + std::to_string(o.rc) + "a" + std::to_string(o.amb) + "e" + std::to_string(o.errs.size()) + ":";
        if (o.rc == 0 && o.root) { DenRes d = denote(o.root, len, true); for (auto &t : d.trees) out += t + ";"; for (auto &s : d.shape) out += "SHAPE " + s + ";"; }
        out += "|";
        int k = len - 1; while (k >= 0 && ++w[k] == (int) codes.size()) { w[k] = 0; k--; }
        if (k < 0) break;
      }
    }
  }
  g_trk.reset();
  return out;
}

struct TxtEngine {
  Report *rep = nullptr;
  bool verbose = false;
  std::string prop = "C11";
  std::set<std::string> known;
  void V(const std::string &kind, const std::string &cs, const std::string &text, const std::string &detail) {
    std::string js = "{\"property\":" + jstr(prop) + ",\"kind\":" + jstr(kind) + ",\"engine\":\"txt\",\"case\":" + jstr(cs) + ",\"grammar\":" + jstr(text) + ",\"detail\":" + jstr(detail) + "}";
    rep->viol(js);
    if (verbose) printf("VIOLATION-DETAIL %s\n", js.c_str());
  }

  // judge one text against the reference reader.  strong = compare behaviour with the twin on inputs
  void judge(const std::string &text, const std::string &cs, int ninputs) {
    note_case(cs);
    DescRes d = read_description(text);
    void *y = vy_create();
    int rc = define_by_text(y, text, 0);
    rep->add("texts");
    rep->add(d.kind == D_VALID ? "texts_valid" : d.kind == D_INVALID ? "texts_invalid" : "texts_unspecified");
    std::string msg = vy_error_message(y);
    { unsigned long h = 1469598103934665603ULL; for (char c : cs + "/" + std::to_string(rc) + msg) h = (h ^ (unsigned char) c) * 1099511628211ULL; rep->counters["dg:" + cs.substr(0, cs.find(' ')) + std::to_string(h % 13)] += (long) (h >> 36); }
    if (verbose) printf("text %s\n  reference: %s%s  yaep rc=%d msg=\"%s\"\n", jstr(text).c_str(), d.kind == D_VALID ? "VALID" : d.kind == D_INVALID ? "INVALID" : "UNSPECIFIED", d.why.empty() ? "" : (" (" + d.why + ")").c_str(), rc, msg.c_str());
    if (!documented_code(rc)) V("undocumented-code", cs, text, "yaep_parse_grammar returned " + std::to_string(rc));
    if (msg.size() > 200) V("message-too-long", cs, text, "error message of " + std::to_string(msg.size()) + " characters");
    if (rc != 0 && vy_error_code(y) != rc) V("error-code-mismatch", cs, text, "yaep_error_code = " + std::to_string(vy_error_code(y)) + " after return value " + std::to_string(rc));
    if (rc == YAEP_DESCRIPTION_SYNTAX_ERROR_CODE) {
      int ln = -1; size_t p = msg.rfind("ln ");
      if (p != std::string::npos) ln = atoi(msg.c_str() + p + 3);
      if (ln < 1 || ln > d.lines) V("line-number", cs, text, "message \"" + msg + "\" names a line outside the text (" + std::to_string(d.lines) + " lines)");
    }
    if (d.kind == D_INVALID) { if (rc == 0) V("invalid-text-accepted", cs, text, "the text is not in the documented syntax (" + d.why + ") but yaep_parse_grammar returned 0"); }
    else if (d.kind == D_VALID) {
      if (rc == YAEP_DESCRIPTION_SYNTAX_ERROR_CODE) V("valid-text-rejected", cs, text, "the text follows the documented syntax but got \"" + msg + "\"");
      else if (d.repeated_diff_code) { if (rc != YAEP_REPEATED_TERM_CODE) V("repeated-declaration", cs, text, "one terminal declared with two codes: expected YAEP_REPEATED_TERM_CODE, got " + std::to_string(rc)); }
      else if (d.term_in_lhs) { if (rc == 0) V("term-in-lhs-accepted", cs, text, "terminal on a left-hand side accepted"); }
      else {
        // twin: yaep_read_grammar on the denoted grammar
        void *z = vy_create();
        int rc2 = define_by_callbacks(z, d.g, 0);
        rep->add("twin_comparisons");
        if (rc != rc2) V("differs-from-read-grammar", cs, text, "yaep_parse_grammar returned " + std::to_string(rc) + " (\"" + msg + "\"), yaep_read_grammar on the denoted grammar " + gram_to_string(d.g) + " with terminals " + terms_str(d.g) + " returned " + std::to_string(rc2) + " (\"" + vy_error_message(z) + "\")");
        else if (rc == 0 && ninputs >= 0) {
          std::vector<int> codes; for (auto &t : d.g.terms) codes.push_back(t.second);
          if (codes.size() > 3) codes.resize(3);
          std::string b1 = behaviour(y, codes, ninputs), b2 = behaviour(z, codes, ninputs);
          rep->add("behaviour_comparisons");
          if (verbose) printf("  behaviour: %s\n", b1.substr(0, 1500).c_str());
          if (b1.find("SHAPE") != std::string::npos) V("shape", cs, text, "malformed tree: " + b1.substr(b1.find("SHAPE"), 200));
          if (b1 != b2) V("behaviour-differs", cs, text, "parses differ between the text definition and yaep_read_grammar on the denoted grammar " + gram_to_string(d.g) + " terminals " + terms_str(d.g) + ": [" + b1.substr(0, 400) + "] vs [" + b2.substr(0, 400) + "]");
        }
        vy_free(z);
      }
    }
    vy_free(y);
  }
  static std::string terms_str(const Gram &g) { std::string s; for (auto &t : g.terms) s += t.first + "=" + std::to_string(t.second) + " "; return s; }

  // ---- (a) printing with lexical variations
  // v encodes: sep(4) semi(2) termpos(4) termkind(3) redecl(2) costform(2) = 384
  static const int NVAR = 384;
  std::string print_var(const Gram &g0, int v, Gram *twin) {
    int sep = v % 4; v /= 4; int semi = v % 2; v /= 2; int termpos = v % 4; v /= 4; int kind = v % 3; v /= 3; int redecl = v % 2; v /= 2; int costform = v % 2;
    static const char *SEP[] = {" ", "\n", "\t", " /* c */ "};
    std::string S = SEP[sep];
    Gram g = g0;
    if (kind == 2) {   // character constants are declared by being used: every terminal must occur in a rule
      for (size_t i = 0; i < g.terms.size(); i++) { bool used = false; for (auto &r : g.rules) for (int x : r.rhs) if (x == (int) i) used = true; if (!used) return ""; }
    }
    // terminal spelling: kind 0 identifiers with explicit codes, 1 identifiers with implicit codes (256.. in order of appearance), 2 character constants
    for (size_t i = 0; i < g.terms.size(); i++) {
      if (kind == 2) { g.terms[i].first = std::string("'") + (char) ('a' + i) + "'"; g.terms[i].second = 'a' + (int) i; }
      else { g.terms[i].first = std::string(1, (char) ('a' + i)); }
    }
    auto term_section = [&](size_t from, size_t to) {
      std::string t = "TERM";
      for (size_t i = from; i < to; i++) { t += S + g.terms[i].first; if (kind == 0) t += S + "=" + S + std::to_string(g.terms[i].second); }
      if (redecl && to > from) { t += S + g.terms[from].first; if (kind == 0) t += "=" + std::to_string(g.terms[from].second); }
      return t + (semi ? S + ";" : "") + S;
    };
    std::string rules;
    for (size_t k = 0; k < g.rules.size(); k++) {
      const Rule &r = g.rules[k];
      rules += g.nts[r.lhs] + (sep == 3 ? " " : S) + ":";   // a comment between the identifier and ':' is left open by the manual
      for (int x : r.rhs) rules += S + g.sym_name(x);
      if (r.anode) {
        rules += S + "#" + S + r.aname;
        if (!(costform == 1 && r.cost == 1)) rules += S + std::to_string(r.cost);
        rules += S + "(";
        for (int t : r.transl) rules += S + (t == NILTR ? std::string("-") : std::to_string(t));
        rules += S + ")";
      } else if (r.has_transl) { rules += S + "#"; for (int t : r.transl) rules += S + (t == NILTR ? std::string("-") : std::to_string(t)); }
      // without `;' the next rule's identifier must not be taken for a symbol: an identifier followed by ':' always starts a rule
      rules += (semi || (k + 1 == g.rules.size() && sep == 0) ? S + ";" : "") + S;
      if (termpos == 3 && kind != 2 && k == 0) rules += term_section(g.terms.size() / 2, g.terms.size());   // split: second half between the rules
    }
    std::string text;
    if (kind == 2) text = rules;                       // no TERM section at all
    else if (termpos == 0) text = term_section(0, g.terms.size()) + rules;
    else if (termpos == 1) text = rules + term_section(0, g.terms.size());
    else if (termpos == 2) text = term_section(0, g.terms.size()) + rules + term_section(0, g.terms.size());
    else text = term_section(0, g.terms.size() / 2) + rules;
    if (kind == 1) {
      // implicit codes: order of appearance of the declarations
      std::vector<size_t> order;
      if (termpos == 3) { for (size_t i = 0; i < g.terms.size() / 2; i++) order.push_back(i); for (size_t i = g.terms.size() / 2; i < g.terms.size(); i++) order.push_back(i); }
      else for (size_t i = 0; i < g.terms.size(); i++) order.push_back(i);
      int c = 256; for (size_t i : order) g.terms[i].second = c++;
    }
    *twin = g;
    return text;
  }

  void run_printed(const std::string &family, const std::string &tm, int shard, int nshards, int var_stride, int ninputs, double deadline, bool *hit) {
    Family fam(family_spec_txt(family));
    std::vector<int> codes{97, 98, 99, 100};
    for (size_t gi = 0; gi < fam.skels.size(); gi++) {
      if ((int) (gi % nshards) != shard) continue;
      if (deadline > 0 && now_s() > deadline) { *hit = true; return; }
      const Skel &sk = fam.skels[gi];
      std::vector<std::vector<int>> mvs;
      if (tm == "u0") mvs.push_back(std::vector<int>(sk.size(), 0));
      else { for (size_t v = 0; v < sk.size(); v++) for (int m = 0; m < menu_size(sk[v]); m++) { std::vector<int> mv(sk.size(), 0); mv[v] = m; mvs.push_back(mv); } }
      for (auto &mv : mvs) {
        Gram g = skel_to_gram(sk, fam.sp, codes);
        bool has_err = false;
        for (size_t k = 0; k < g.rules.size(); k++) { apply_menu(g.rules[k], mv[k], (int) k, (int) (k % 3)); for (int x : g.rules[k].rhs) if (x == g.ERR()) has_err = true; }
        (void) has_err;
        // only grammars yaep_read_grammar accepts are interesting for equality of behaviour; rejected ones compare codes
        for (int v = (int) (gi % var_stride); v < NVAR; v += var_stride) {
          Gram twin;
          std::string text = print_var(g, v, &twin);
          if (text.empty()) { rep->add("variants_not_printable"); continue; }
          std::string cs = "printed family=" + family + " gi=" + std::to_string(gi) + " tm=" + join(mv) + " var=" + std::to_string(v);
          DescRes d = read_description(text);
          if (d.kind != D_VALID) machinery_error("printer produced a text the reference reader does not accept as VALID: " + text + " (" + d.why + ")");
          // the reference reader must denote the grammar we printed (self-check of the reader)
          if (gram_to_string(d.g) != gram_to_string(twin) || terms_str(d.g) != terms_str(twin)) machinery_error("reference reader disagrees with the printer on: " + text + " => " + gram_to_string(d.g) + " [" + terms_str(d.g) + "] vs " + gram_to_string(twin) + " [" + terms_str(twin) + "]");
          rep->add("printed_texts");
          judge(text, cs, ninputs);
        }
      }
      rep->add("printed_grammars");
    }
  }
  static std::string join(const std::vector<int> &v) { std::string s; for (size_t i = 0; i < v.size(); i++) { if (i) s += "."; s += std::to_string(v[i]); } return s; }
  static FamilySpec family_spec_txt(const std::string &name) {
    if (name == "q") return FamilySpec{2, 2, 3, 2, 7, false};
    if (name == "qe") return FamilySpec{2, 2, 3, 2, 7, true};
    if (name == "mini") return FamilySpec{1, 2, 2, 2, 5, false};
    if (name == "minie") return FamilySpec{1, 2, 2, 2, 5, true};
    if (name == "q3") return FamilySpec{2, 2, 2, 3, 7, false};
    machinery_error("unknown family " + name);
  }

  // ---- (b) mutations of seed texts
  std::vector<std::string> seeds() {
    std::vector<std::string> s;
    for (int i = 0; curated_texts[i]; i++) s.push_back(curated_texts[i]);
    s.push_back("TERM a = 5 b;\nS : a b # n 2 (0 - 1)\n  | /* c */ # -\n;\nTERM a=5;");
    s.push_back("TERM;\nE : T # 0 | E '+' T # plus (0 2);\nT : 'a' # 0;");
    s.push_back("A : 'x' B # 1 B : # - | 'y' # y");
    s.push_back("TERM NUM = 300 ID;\nS : NUM S ID # s 0 (1) | # e ()\n");
    return s;
  }
  void run_mutations(int shard, int nshards, int ninputs, double deadline, bool *hit) {
    std::vector<std::string> ss = seeds();
    long idx = 0;
    for (size_t si = 0; si < ss.size(); si++) {
      const std::string &t = ss[si];
      auto take = [&]() { return (idx++ % nshards) == shard; };
      for (size_t p = 0; p <= t.size(); p++) {
        if (deadline > 0 && now_s() > deadline) { *hit = true; return; }
        if (take()) judge(t.substr(0, p), "mutation seed=" + std::to_string(si) + " prefix=" + std::to_string(p), ninputs);
        if (p < t.size() && take()) judge(t.substr(0, p) + t.substr(p + 1), "mutation seed=" + std::to_string(si) + " delete=" + std::to_string(p), ninputs);
        for (int a = 0; a < NALPHA; a++) {
          if (take()) judge(t.substr(0, p) + ALPHA[a] + t.substr(p), "mutation seed=" + std::to_string(si) + " insert=" + std::to_string(p) + "," + std::to_string(a), ninputs);
          if (p < t.size() && ALPHA[a] != t[p] && take()) judge(t.substr(0, p) + ALPHA[a] + t.substr(p + 1), "mutation seed=" + std::to_string(si) + " subst=" + std::to_string(p) + "," + std::to_string(a), ninputs);
        }
      }
      rep->add("mutated_seeds");
    }
  }
  std::string text_of_case(const std::string &cs) {
    std::vector<std::string> ss = seeds();
    int si, p, a;
    if (sscanf(cs.c_str(), "mutation seed=%d prefix=%d", &si, &p) == 2) return ss[si].substr(0, p);
    if (sscanf(cs.c_str(), "mutation seed=%d delete=%d", &si, &p) == 2) return ss[si].substr(0, p) + ss[si].substr(p + 1);
    if (sscanf(cs.c_str(), "mutation seed=%d insert=%d,%d", &si, &p, &a) == 3) return ss[si].substr(0, p) + ALPHA[a] + ss[si].substr(p);
    if (sscanf(cs.c_str(), "mutation seed=%d subst=%d,%d", &si, &p, &a) == 3) return ss[si].substr(0, p) + ALPHA[a] + ss[si].substr(p + 1);
    long n; int len;
    if (sscanf(cs.c_str(), "bytes len=%d n=%ld", &len, &n) == 2) { std::string t(len, ' '); for (int i = len - 1; i >= 0; i--) { t[i] = ALPHA[n % NALPHA]; n /= NALPHA; } return t; }
    machinery_error("cannot rebuild text of case " + cs);
  }

  // ---- (c) all byte strings up to a length
  void run_bytes(int maxlen, int shard, int nshards, double deadline, bool *hit) {
    for (int len = 0; len <= maxlen; len++) {
      long total = 1; for (int i = 0; i < len; i++) total *= NALPHA;
      for (long n = shard; n < total; n += nshards) {
        if ((n & 0xfff) == 0 && deadline > 0 && now_s() > deadline) { *hit = true; return; }
        std::string t(len, ' '); long m = n;
        for (int i = len - 1; i >= 0; i--) { t[i] = ALPHA[m % NALPHA]; m /= NALPHA; }
        judge(t, "bytes len=" + std::to_string(len) + " n=" + std::to_string(n), -1);
      }
      rep->add("byte_lengths_completed");
    }
  }

  // ---- (e) terminal declarations: every list of <= maxk declarations over the names a, b, c (a name may be
  // declared again), each without a code or with one of {97, 255, 256, 257, 258}, split into one or two TERM
  // sections at every point, followed by one rule using the distinct names.  The numbering of code-less
  // terminals ("next free code starting with 256") is state of the description reader.
  void run_termdecl(int maxk, int shard, int nshards) {
    static const int CODES[] = {-1, 97, 255, 256, 257, 258};
    const int NC = 6, NN = 3;
    long idx = 0;
    for (int k = 1; k <= maxk; k++) {
      long total = 1; for (int i = 0; i < k; i++) total *= NC * NN;
      for (long n = 0; n < total; n++) for (int split = 0; split <= (k > 1 ? k - 1 : 0); split++) {
        if ((idx++ % nshards) != shard) continue;
        std::string t = "TERM"; long m = n; std::set<char> names;
        for (int i = 0; i < k; i++) {
          int c = CODES[m % NC]; m /= NC; char nm = (char) ('a' + m % NN); m /= NN; names.insert(nm);
          if (split && i == split) t += " ; TERM";
          t += std::string(" ") + nm; if (c >= 0) t += " = " + std::to_string(c);
        }
        t += " ; S :"; int j = 0; std::string tr;
        for (char nm : names) { t += std::string(" ") + nm; tr += " " + std::to_string(j++); }
        t += " # s (" + tr + " ) ;";
        judge(t, "termdecl k=" + std::to_string(k) + " n=" + std::to_string(n) + " split=" + std::to_string(split), 2);
        rep->add("termdecl_texts");
      }
    }
  }

  // ---- (d) long symbol names through every message-producing error, big grammars
  void run_long_names() {
    static const int LENS[] = {1, 100, 190, 200, 201, 300, 1000};
    for (int L : LENS) {
      std::string N(L, 'n'), M(L, 'm');
      struct Case { const char *what; std::string text; };
      std::vector<Case> cs = {
        {"repeated declaration, different code", "TERM " + N + " = 1 " + N + " = 2; S : " + N + " ;"},
        {"repeated code", "TERM " + N + " = 1 " + M + " = 1; S : " + N + " ;"},
        {"term in lhs", "TERM " + N + "; " + N + " : ;"},
        {"incorrect translation", N + " : 'a' 'b' # 0 1 ;"},
        {"symbol number out of range", N + " : 'a' # 7 ;"},
        {"repeated symbol number", N + " : 'a' # x (0 0) ;"},
        {"loop", N + " : " + N + " | 'a' ;"},
        {"no derivation", "S : " + N + " ;"},
        {"unaccessible", "S : 'a' ; " + N + " : 'b' ;"},
        {"fixed name", "TERM error; S : 'a' ;"},
        {"long good grammar", N + " : " + M + " 'a' # " + N + " (0 1) ; " + M + " : 'b' # " + M + " (0) ;"},
      };
      for (auto &c : cs) for (int strict = 0; strict < 2; strict++) {
        note_case(std::string("longname L=") + std::to_string(L) + " " + c.what);
        void *y = vy_create();
        int rc = define_by_text(y, c.text, strict);
        size_t ml = strnlen(vy_error_message(y), 100000);
        rep->add("long_name_cases");
        if (ml > 200) V("message-too-long", std::string("longname L=") + std::to_string(L) + " " + c.what, c.text.substr(0, 300), "error message has " + std::to_string(ml) + " characters (buffer: 200 + NUL), rc=" + std::to_string(rc));
        if (!documented_code(rc)) V("undocumented-code", std::string("longname L=") + std::to_string(L) + " " + c.what, c.text.substr(0, 300), "rc=" + std::to_string(rc));
        if (rc == 0) { std::vector<int> in{'b', 'a'}; ParseObs o = run_parse(y, in, 0); if (o.rc != 0) V("long-name-parse", std::string("longname L=") + std::to_string(L), c.text.substr(0, 300), "parse rc=" + std::to_string(o.rc)); g_trk.reset(); }
        vy_free(y);
      }
      // negative code and repeated declaration through the callbacks
      {
        Gram g; g.terms = {{N, -1}}; g.nts = {"S"}; Rule r; r.lhs = 0; g.rules = {r};
        void *y = vy_create(); int rc = define_by_callbacks(y, g, 0);
        if (strnlen(vy_error_message(y), 100000) > 200) V("message-too-long", "longname-cb L=" + std::to_string(L) + " negative code", N.substr(0, 50), "message too long, rc=" + std::to_string(rc));
        vy_free(y);
        g.terms = {{N, 1}, {N, 2}};
        y = vy_create(); rc = define_by_callbacks(y, g, 0);
        if (strnlen(vy_error_message(y), 100000) > 200) V("message-too-long", "longname-cb L=" + std::to_string(L) + " repeated decl", N.substr(0, 50), "message too long, rc=" + std::to_string(rc));
        vy_free(y);
        Rule rr; rr.lhs = 0; rr.anode = true; rr.aname = "x"; rr.cost = -1; rr.has_transl = true; g.terms = {{"a", 1}}; g.nts = {N}; g.rules = {rr};
        y = vy_create(); rc = define_by_callbacks(y, g, 0);
        if (strnlen(vy_error_message(y), 100000) > 200) V("message-too-long", "longname-cb L=" + std::to_string(L) + " negative cost", N.substr(0, 50), "message too long, rc=" + std::to_string(rc));
        vy_free(y);
      }
    }
    // hundreds of symbols: chain of 300 nonterminals over 300 terminals, sparse and dense codes
    for (int sparse = 0; sparse < 2; sparse++) {
      Gram g; int K = 300;
      for (int i = 0; i < K; i++) { g.terms.push_back({"t" + std::to_string(i), sparse ? i * 997 + 3 : i + 10}); g.nts.push_back("N" + std::to_string(i)); }
      for (int i = 0; i < K; i++) { Rule r; r.lhs = i; r.rhs = {i}; if (i + 1 < K) r.rhs.push_back(g.NT(i + 1)); r.anode = true; r.aname = "n" + std::to_string(i); r.cost = 1; r.has_transl = true; r.transl = {0}; if (i + 1 < K) r.transl.push_back(1); g.rules.push_back(r); }
      void *y = vy_create();
      int rc = define_by_callbacks(y, g, 1);
      if (rc != 0) V("big-grammar", sparse ? "big sparse" : "big dense", "300-symbol chain", std::string("rejected: ") + vy_error_message(y));
      else {
        std::vector<int> in; for (int i = 0; i < K; i++) in.push_back(g.terms[i].second);
        for (int la = 0; la < 3; la++) { Flags f; f.la = la; f.one = 0; apply_flags(y, f); ParseObs o = run_parse(y, in, 0); if (o.rc != 0 || !o.errs.empty() || !o.root) V("big-grammar", sparse ? "big sparse" : "big dense", "300-symbol chain", "sentence not parsed rc=" + std::to_string(o.rc)); g_trk.reset(); }
        in[150] = in[151];
        ParseObs o = run_parse(y, in, 0); if (o.rc != 0 || o.errs.empty()) V("big-grammar", "big", "300-symbol chain", "non-sentence rc=" + std::to_string(o.rc)); g_trk.reset();
      }
      vy_free(y);
      rep->add("big_grammars");
    }
  }
};

int eng_txt_main(int argc, char **argv) {
  Args a(argc, argv, 2);
  TxtEngine E;
  E.verbose = a.has("verbose");
  E.prop = a.get("prop", "C11");
  std::string mode = a.get("mode", "printed");
  int si = 0, sn = 1; sscanf(a.get("shard", "0/1").c_str(), "%d/%d", &si, &sn);
  double deadline = a.has("deadline") ? now_s() + a.geti("deadline", 0) : 0;
  Report total;
  g_cur = (char *) mmap(NULL, 4096, PROT_READ | PROT_WRITE, MAP_SHARED | MAP_ANONYMOUS, -1, 0);
  g_cur[0] = 0;
  if (a.has("case")) {
    E.rep = &total;
    std::string cs = a.get("case");
    if (cs.rfind("printed", 0) == 0) {
      char fam[32]; long gi; char tm[64]; int var;
      if (sscanf(cs.c_str(), "printed family=%31s gi=%ld tm=%63s var=%d", fam, &gi, tm, &var) != 4) machinery_error("bad case " + cs);
      Family F(TxtEngine::family_spec_txt(fam)); std::vector<int> codes{97, 98, 99, 100};
      Gram g = skel_to_gram(F.skels[gi], F.sp, codes);
      std::vector<std::string> ms = split(tm, '.');
      for (size_t k = 0; k < g.rules.size(); k++) apply_menu(g.rules[k], atoi(ms[k].c_str()), (int) k, (int) (k % 3));
      Gram twin; std::string text = E.print_var(g, var, &twin);
      E.judge(text, cs, (int) a.geti("inputs", 3));
    } else if (cs.rfind("longname", 0) == 0 || cs.rfind("big", 0) == 0) E.run_long_names();
    else E.judge(E.text_of_case(cs), cs, (int) a.geti("inputs", 3));
    return 0;
  }
  bool hit = false;
  // everything runs in forked batches so that a crash is contained and attributed
  auto guarded = [&](const std::function<void(Report &)> &fn, const std::string &what) {
    ChildRes cr = run_child([&](Report &r) { TxtEngine X = E; X.rep = &r; E.rep = &r; fn(r); }, total, (int) a.geti("timeout", 3000));
    if (!cr.ok) total.viol("{\"property\":" + jstr(E.prop) + ",\"kind\":\"crash\",\"engine\":\"txt\",\"case\":" + jstr(g_cur[0] ? std::string(g_cur) : what) + ",\"grammar\":\"\",\"detail\":" + jstr(child_failure_text(cr) + "; stderr: " + cr.err_tail.substr(0, 2000)) + "}");
  };
  if (mode == "printed") {
    // one child per slice of the grammar index space so that a crash loses little
    int slices = 8;
    for (int k = 0; k < slices && !hit; k++) {
      int pfd[2]; if (pipe(pfd)) machinery_error("pipe");
      guarded([&](Report &) { bool h = false; E.run_printed(a.get("family", "mini"), a.get("tm", "vary"), si * slices + k, sn * slices, (int) a.geti("varstride", 1), (int) a.geti("inputs", 3), deadline, &h); if (h) { ssize_t n = write(pfd[1], "H", 1); (void) n; } }, "printed family=" + a.get("family", "mini") + " slice " + std::to_string(k));
      close(pfd[1]); char c; if (read(pfd[0], &c, 1) == 1) hit = true; close(pfd[0]);
    }
  } else if (mode == "mutations") {
    int slices = 16;
    for (int k = 0; k < slices && !hit; k++) guarded([&](Report &) { bool h = false; E.run_mutations(si * slices + k, sn * slices, (int) a.geti("inputs", 2), deadline, &h); }, "mutations slice " + std::to_string(k));
  } else if (mode == "bytes") {
    int slices = 8;
    for (int k = 0; k < slices && !hit; k++) guarded([&](Report &) { bool h = false; E.run_bytes((int) a.geti("len", 4), si * slices + k, sn * slices, deadline, &h); }, "bytes slice " + std::to_string(k));
  } else if (mode == "termdecl") {
    guarded([&](Report &) { E.run_termdecl((int) a.geti("k", 3), si, sn); }, "termdecl");
  } else if (mode == "longnames") {
    if (si == 0) guarded([&](Report &) { E.run_long_names(); }, "longnames");
  }
  if (deadline > 0 && now_s() > deadline) hit = true;
  char extra[64]; snprintf(extra, sizeof extra, ",\n \"deadline_hit\": %s", hit ? "true" : "false");
  total.write_json(a.get("out", "/dev/stdout"), extra);
  return 0;
}
